//go:build ignore

// Native demonstration of H16 (DESIGN.md 9.3), kept for the record; not part of any
// registered check. To run it: copy this file into a scratch worktree of the
// repository at c5ad504 (the parent of the repair 4b170fb) as zz_h16_probe_test.go,
// remove the build constraint above, and run
//
//	go test -vet=off -count=1 -run TestZZProbeTruncateFollowUpFails .
//
// There it fails ("acknowledged sync, but the restored database has 40 of 41
// filler rows"); on 4b170fb and later it passes.
//
// Schedule: litestream runs a TRUNCATE checkpoint; right before its PRAGMA (a
// context whose Done method looks at its own call stack gets control there) the
// application commits a row on pages of its own; from then on the staging-file
// opener reports ENOSPC once, so the boundary snapshot after the checkpoint fails;
// space comes back, the application commits again, SyncAndWait succeeds, and the
// replica is restored and compared with the source.

package litestream

import (
	"context"
	"database/sql"
	"errors"
	"io"
	"log/slog"
	"os"
	"path/filepath"
	"runtime"
	"strings"
	"sync"
	"syscall"
	"testing"
)

type zzHookCtx struct {
	context.Context
	once sync.Once
	fn   func()
}

func (c *zzHookCtx) Done() <-chan struct{} {
	pcs := make([]uintptr, 64)
	n := runtime.Callers(2, pcs)
	frames := runtime.CallersFrames(pcs[:n])
	var inExec, inQuery bool
	for {
		fr, more := frames.Next()
		if strings.HasSuffix(fr.Function, "litestream.(*DB).execCheckpoint") {
			inExec = true
		}
		if strings.HasSuffix(fr.Function, "database/sql.(*DB).QueryRowContext") {
			inQuery = true
		}
		if !more {
			break
		}
	}
	if inExec && inQuery {
		c.once.Do(c.fn)
	}
	return c.Context.Done()
}

func TestZZProbeTruncateFollowUpFails(t *testing.T) {
	ctx := context.Background()
	dir := t.TempDir()
	dbPath := filepath.Join(dir, "db")
	app, err := sql.Open("sqlite", dbPath)
	if err != nil {
		t.Fatal(err)
	}
	defer app.Close()
	app.SetMaxOpenConns(1)
	for _, q := range []string{`PRAGMA journal_mode = wal`, `PRAGMA busy_timeout = 2000`, `PRAGMA wal_autocheckpoint = 0`, `CREATE TABLE t (id INTEGER PRIMARY KEY, v TEXT)`, `INSERT INTO t VALUES (1,'first')`} {
		if _, err := app.Exec(q); err != nil {
			t.Fatal(err)
		}
	}
	db := NewDB(dbPath)
	db.MonitorInterval = 0
	db.Logger = slog.New(slog.NewTextHandler(io.Discard, nil))
	db.CheckpointInterval = 0
	db.MinCheckpointPageN = 1000000
	db.ShutdownSyncTimeout = 0
	db.Replica = NewReplica(db)
	db.Replica.Client = &testReplicaClient{dir: t.TempDir()}
	db.Replica.MonitorEnabled = false
	if err := db.Open(); err != nil {
		t.Fatal(err)
	}
	defer db.Close(ctx)
	if err := db.SyncAndWait(ctx); err != nil {
		t.Fatal(err)
	}
	if _, err := app.Exec(`CREATE TABLE filler (id INTEGER PRIMARY KEY, data BLOB)`); err != nil {
		t.Fatal(err)
	}
	for i := 0; i < 40; i++ {
		if _, err := app.Exec(`INSERT INTO filler (data) VALUES (randomblob(3000))`); err != nil {
			t.Fatal(err)
		}
	}
	if err := db.SyncAndWait(ctx); err != nil {
		t.Fatal(err)
	}
	// the application commits U right before litestream's TRUNCATE checkpoint takes the lock
	hctx := &zzHookCtx{Context: ctx}
	committed := false
	hctx.fn = func() {
		if _, err := app.Exec(`INSERT INTO filler (data) VALUES (randomblob(3000))`); err != nil {
			t.Logf("window commit refused: %v", err)
			return
		}
		committed = true
		// and from now on the disk is full: the boundary snapshot cannot be staged
		db.openLTXFile = func(name string, flag int, perm os.FileMode) (ltxStagingFile, error) {
			return nil, &os.PathError{Op: "open", Path: name, Err: syscall.ENOSPC}
		}
	}
	cerr := db.Checkpoint(hctx, CheckpointModeTruncate)
	t.Logf("checkpoint result: %v (window commit=%v)", cerr, committed)
	if !committed {
		t.Skip("interleaving point not reached")
	}
	if cerr == nil {
		t.Skip("the follow-up did not fail")
	}
	db.openLTXFile = defaultOpenLTXFile // space is available again
	if _, err := app.Exec(`INSERT INTO t VALUES (3,'later')`); err != nil {
		t.Fatal(err)
	}
	if err := db.SyncAndWait(ctx); err != nil {
		t.Fatalf("sync after the failed checkpoint: %v", err)
	}
	out := filepath.Join(t.TempDir(), "restored")
	opt := NewRestoreOptions()
	opt.OutputPath = out
	if err := db.Replica.Restore(ctx, opt); err != nil {
		t.Fatal(err)
	}
	r, err := sql.Open("sqlite", out)
	if err != nil {
		t.Fatal(err)
	}
	defer r.Close()
	var n int
	if err := r.QueryRow(`SELECT COUNT(*) FROM t`).Scan(&n); err != nil {
		t.Fatal(err)
	}
	if n != 2 {
		t.Fatalf("acknowledged sync, but the restored database has %d of 2 rows", n)
	}
	var ic string
	if err := r.QueryRow(`PRAGMA integrity_check`).Scan(&ic); err != nil || ic != "ok" {
		t.Fatalf("restored database fails integrity check: %v %q", err, ic)
	}
	var want, got int
	if err := app.QueryRow(`SELECT COUNT(*) FROM filler`).Scan(&want); err != nil {
		t.Fatal(err)
	}
	if err := r.QueryRow(`SELECT COUNT(*) FROM filler`).Scan(&got); err != nil {
		t.Fatal(err)
	}
	if got != want {
		t.Fatalf("acknowledged sync, but the restored database has %d of %d filler rows", got, want)
	}
	_ = errors.New
}
