#!/bin/bash
# tools/seedall.sh [tier] : run every seeded change under seeded/*/ against the quick
# (or thorough) check of its property, each in a scratch worktree, and print one
# line per seed: caught (exit 1 with a VIOLATION line), missed (exit 0) or
# inconclusive (exit 2). A regression test of the harnesses, not a registered check.
cd "$(dirname "$0")/.." || exit 2
tier=${1:-quick}
caught=0; missed=0; inc=0
for d in seeded/*/; do
  id=$(basename "$d"); prop=$(python3 -c "import json;print(json.load(open('$d/meta.json'))['property'])")
  out=$(tools/seedrun.sh "$d/patch.diff" "$prop" "$tier" 2>&1)
  rc=$(echo "$out" | sed -n 's/^seedrun: .*exit=\([0-9]*\)$/\1/p')
  case "$rc" in
    1) caught=$((caught+1)); echo "$id $prop caught: $(echo "$out" | grep -m1 'harness=' | sed 's/^ *//')";;
    0) missed=$((missed+1)); echo "$id $prop MISSED";;
    *) inc=$((inc+1)); echo "$id $prop inconclusive: $(echo "$out" | grep -m1 INCONCLUSIVE)";;
  esac
done
echo "seedall: caught=$caught missed=$missed inconclusive=$inc"
