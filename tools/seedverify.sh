#!/bin/bash
# tools/seedverify.sh <dir with patch.diff and demo *_test.go> [package dir for the demo, default .] [go test args for the demo, e.g. "-tags vfs"]
# Independent confirmation of a seeded change, in a scratch worktree of /repo:
#   1. the demonstration passes on the unchanged tree
#   2. the patch applies and the tree builds (go build ./... and test compile)
#   3. the demonstration fails with the patch
#   4. the repository's suite passes with the patch (failures are compared with
#      the failures of the unchanged tree in this sandbox: tools/baseline_fail.txt)
# Prints one line per step and a final "seedverify: OK" or "seedverify: FAIL".
set -u
d=$(readlink -f "$1"); pkg=${2:-.}; extra=${3:-}
root=$(cd "$(dirname "$0")/.." && pwd)
unset GOSUMDB; export GOFLAGS=-mod=mod GOPROXY=off
wt=$(mktemp -d /tmp/sv-XXXXXX); rmdir "$wt"
git -C /repo worktree add --detach "$wt" HEAD >/dev/null 2>&1 || { echo "worktree failed"; exit 2; }
trap 'git -C /repo worktree remove --force "$wt" >/dev/null 2>&1; rm -rf "$wt"' EXIT
ok=1
if [ -n "${SEEDVERIFY_VFS:-}" ]; then
  # the vfs-tagged test binary: three test files of the repository do not compile at this commit
  printf '{"Replace":{"%s/vfs_test.go":"","%s/vfs_write_test.go":"","%s/vfs_compaction_test.go":""}}' "$wt" "$wt" "$wt" > "$wt.overlay.json"
  extra="-tags vfs -overlay $wt.overlay.json"
fi
demos=$(ls "$d"/*_test.go 2>/dev/null)
[ -z "$demos" ] && { echo "no demo test"; ok=0; }
cp $demos "$wt/$pkg/"
names=$(grep -ho '^func Test[A-Za-z0-9_]*' $demos | sed 's/func //' | paste -sd'|')
( cd "$wt/$pkg" && go test -vet=off -count=1 -p 4 $extra -run "^($names)\$" . ) >"$wt.demo0.log" 2>&1
if [ $? -eq 0 ] && grep -q '^ok' "$wt.demo0.log"; then echo "1 demo passes on unchanged tree: yes"; else echo "1 demo passes on unchanged tree: NO"; tail -20 "$wt.demo0.log"; ok=0; fi
if git -C "$wt" apply "$d/patch.diff"; then echo "2a patch applies: yes"; else echo "2a patch applies: NO"; ok=0; fi
( cd "$wt" && go build ./... && go test -vet=off -count=1 -run '^$' ./... ) >"$wt.build.log" 2>&1
if [ $? -eq 0 ]; then echo "2b builds: yes"; else echo "2b builds: NO"; tail -20 "$wt.build.log"; ok=0; fi
( cd "$wt/$pkg" && go test -vet=off -count=1 -p 4 $extra -run "^($names)\$" . ) >"$wt.demo1.log" 2>&1
if [ $? -ne 0 ] && grep -q -- '--- FAIL' "$wt.demo1.log"; then echo "3 demo fails with patch: yes"; else echo "3 demo fails with patch: NO"; tail -20 "$wt.demo1.log"; ok=0; fi
for f in $demos; do rm -f "$wt/$pkg/$(basename $f)"; done
if [ -z "${SEEDVERIFY_SKIP_SUITE:-}" ]; then
  ( cd "$wt" && go test -json -vet=off -count=1 -p 4 -timeout 25m ./... ) >"$wt.suite.json" 2>"$wt.suite.err"
  python3 - "$wt.suite.json" "$root/tools/baseline_fail.txt" <<'PY'
import json,sys
fails=set()
for l in open(sys.argv[1]):
    try: e=json.loads(l)
    except Exception: continue
    if e.get('Action')=='fail' and e.get('Test'): fails.add(e['Package']+'::'+e['Test'])
    if e.get('Action')=='fail' and not e.get('Test'): fails.add(e['Package']+'::<package>')
base=set(x.strip() for x in open(sys.argv[2]) if x.strip())
new=sorted(f for f in fails-base if not (f.endswith('::<package>') and any(b.startswith(f.split('::')[0]+'::') for b in base)))
open(sys.argv[1]+".new","w").write("\n".join(new))
print("4 suite with patch, failures the unchanged tree does not show:", "none" if not new else ", ".join(new[:10]))
sys.exit(1 if new else 0)
PY
  if [ $? -ne 0 ]; then
    # timing-sensitive tests flake when the machine is loaded: a failure counts only
    # if the test also fails when run alone (twice)
    still=0
    while IFS= read -r t; do
      [ -z "$t" ] && continue
      p=${t%%::*}; n=${t##*::}; rel=${p#github.com/benbjohnson/litestream}; rel=${rel#/}; [ -z "$rel" ] && rel=.
      [ "$n" = "<package>" ] && continue
      top=${n%%/*}
      passed=0
      for k in 1 2; do
        if ( cd "$wt/$rel" && go test -vet=off -count=1 -run "^${top}\$" . ) >/dev/null 2>&1; then passed=1; break; fi
      done
      if [ $passed -eq 1 ]; then
        echo "  $t: passes when run alone (flake under load)"
      elif ! ( cd "/repo/$rel" && go test -vet=off -count=1 -run "^${top}\$" . ) >/dev/null 2>&1; then
        echo "  $t: fails alone, and fails the same way on the unchanged tree right now (load-dependent test)"
      else
        echo "  $t: FAILS also alone, passes on the unchanged tree"; still=1
      fi
    done < "$wt.suite.json.new"
    [ $still -eq 0 ] || ok=0
  fi
fi
rm -f "$wt".*.log "$wt".suite.* "$wt.overlay.json"
if [ $ok -eq 1 ]; then echo "seedverify: OK"; else echo "seedverify: FAIL"; exit 1; fi
