#!/bin/bash
# tools/seedrun.sh <patch.diff> <property> [quick|thorough] [more properties...]
# Applies a seeded change to a scratch worktree of /repo (never to /repo itself),
# points the check at it (VERIF_REPO) with evidence and replays redirected, prints
# the verdict, and removes the worktree.  Exit code = the check's exit code for
# the first property.
set -u
patch=$(readlink -f "$1"); prop=$2; tier=${3:-quick}
root=$(cd "$(dirname "$0")/.." && pwd)
wt=$(mktemp -d /tmp/mut-XXXXXX)
rmdir "$wt"
git -C /repo worktree add --detach "$wt" HEAD >/dev/null 2>&1 || { echo "worktree failed"; exit 2; }
trap 'git -C /repo worktree remove --force "$wt" >/dev/null 2>&1; rm -rf "$wt" "$wt.ev"' EXIT
if ! git -C "$wt" apply "$patch"; then echo "patch does not apply"; exit 2; fi
mkdir -p "$wt.ev"
cd "$root"
VERIF_REPO="$wt" VERIF_EVIDENCE="$wt.ev" VERIF_REPLAYS="$wt.ev/replays" ./check "$prop" "$tier" 2>"$wt.ev/stderr.log"
rc=$?
echo "seedrun: property=$prop tier=$tier exit=$rc"
[ -n "${SEEDRUN_KEEP:-}" ] && cp -r "$wt.ev" "$SEEDRUN_KEEP"
exit $rc
