#!/bin/bash
# Build the engine from files on disk only (vendored x/tools, local go1.26.8).
set -e
cd "$(dirname "$0")/engine"
mkdir -p ../bin ../evidence
GOTOOLCHAIN=local GOFLAGS=-mod=vendor GOPROXY=off go1.26.8 build -o ../bin/gosym .
