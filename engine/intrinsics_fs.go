package main

// symfs: the os / *os.File surface over the in-engine file tree (see
// intrinsics_io.go for the tree itself).

import (
	"fmt"
	"go/types"
	"sort"
	"strings"

	"golang.org/x/tools/go/ssa"
)

const (
	oRDONLY = 0x0
	oWRONLY = 0x1
	oRDWR   = 0x2
	oAPPEND = 0x400
	oCREATE = 0x40
	oEXCL   = 0x80
	oSYNC   = 0x101000
	oTRUNC  = 0x200
)

type fsHandle struct {
	node   *fsNode
	path   string
	pos    int
	flag   int
	closed bool
	wrote  bool
}

var fsInfoType types.Type = types.NewNamed(types.NewTypeName(0, nil, "gosym.fileInfo", nil), types.NewStruct(nil, nil), nil)

type fsInfo struct {
	name  string
	sizeT *Term // symbolic size (sparse file of symbolic length), overrides size
	size  int
	mtime Value
	isDir bool
	mode  uint32
}

func (fi *fsInfo) callMethod(ex *Exec, name string, args []Value) Value {
	switch name {
	case "Name":
		return fi.name
	case "Size":
		if fi.sizeT != nil {
			return fi.sizeT
		}
		return K(64, uint64(fi.size))
	case "ModTime":
		if fi.mtime == nil {
			return zero(ex.eng.namedType("time", "Time"))
		}
		return copyVal(fi.mtime)
	case "IsDir":
		return KBool(fi.isDir)
	case "Mode", "Type":
		m := fi.mode
		if fi.isDir {
			m |= 1 << 31
		}
		return K(32, uint64(m))
	case "Sys":
		return iface{}
	case "Info":
		return tuple{iface{t: fsInfoType, v: fi}, iface{}}
	}
	ex.unsupported("FileInfo method %s", name)
	return nil
}

func (ex *Exec) infoOf(n *fsNode, path string) iface {
	mode := n.mode
	if mode == 0 {
		mode = 0o644
	}
	size := len(n.data)
	if n.vsize > size {
		size = n.vsize
	}
	return iface{t: fsInfoType, v: &fsInfo{name: baseName(path), size: size, sizeT: n.vsizeT, mtime: n.mtime, isDir: n.isDir, mode: mode}}
}

func (ex *Exec) handles() map[*Value]*fsHandle {
	m, _ := ex.ghost["fh"].(map[*Value]*fsHandle)
	if m == nil {
		m = map[*Value]*fsHandle{}
		ex.ghost["fh"] = m
	}
	return m
}

func (ex *Exec) handleOf(v Value) *fsHandle {
	p, _ := v.(*Value)
	if p == nil {
		ex.targetPanicStr("nil pointer dereference (method on nil *os.File)")
	}
	h := ex.handles()[p]
	if h == nil {
		ex.unsupported("*os.File that was not opened through the file-system model")
	}
	return h
}

func (ex *Exec) fileType() types.Type { return ex.eng.namedType("os", "File") }

func (ex *Exec) newFile(h *fsHandle) *Value {
	var cell Value = zero(ex.fileType())
	ex.handles()[&cell] = h
	return &cell
}

func (ex *Exec) nilFile() Value { return (*Value)(nil) }

func (ex *Exec) ensureDirs(st *fsState, dir string) {
	dir = cleanPath(dir)
	if dir == "/" || dir == "." {
		return
	}
	if st.nodes[dir] == nil {
		ex.ensureDirs(st, parentDir(dir))
		st.nodes[dir] = &fsNode{name: dir, isDir: true, mode: 0o755}
	}
}

// openFile implements os.OpenFile on the tree.
func (ex *Exec) openFile(path string, flag int, perm uint32) (Value, iface) {
	st := ex.fs()
	n := st.nodes[path]
	if n == nil {
		if flag&oCREATE == 0 {
			return ex.nilFile(), ex.fsErr("open", path, "ErrNotExist")
		}
		d := st.nodes[parentDir(path)]
		if d == nil || !d.isDir {
			return ex.nilFile(), ex.fsErr("open", path, "ErrNotExist")
		}
		if ex.fsMutating("create", path) {
			return ex.nilFile(), ex.ioErr("open", path)
		}
		st.nextGen++
		n = &fsNode{name: path, mode: perm, dirty: true, gen: st.nextGen}
		st.nodes[path] = n
		d.entriesDirty = true
	} else {
		if flag&oCREATE != 0 && flag&oEXCL != 0 {
			return ex.nilFile(), ex.fsErr("open", path, "ErrExist")
		}
		if n.isDir && flag&(oWRONLY|oRDWR) != 0 {
			return ex.nilFile(), ex.newErr("open " + path + ": is a directory")
		}
		if st.faults && ex.Choose("fsfault:open", 0, 1) == 1 {
			st.trace = append(st.trace, "FAIL open "+path)
			return ex.nilFile(), ex.ioErr("open", path)
		}
		if flag&oTRUNC != 0 && !n.isDir && len(n.data) > 0 {
			if ex.fsMutating("truncate", path) {
				return ex.nilFile(), ex.ioErr("open", path)
			}
			n.data = nil
			n.dirty = true
			n.complete = false
		}
	}
	h := &fsHandle{node: n, path: path, flag: flag}
	if flag&(oWRONLY|oRDWR) != 0 {
		n.openW++
		n.complete = false
	}
	return ex.newFile(h), iface{}
}

// invoke calls method name on an interface value.
func (ex *Exec) invoke(fr *frame, itf iface, name string, args ...Value) Value {
	if itf.t == nil {
		ex.targetPanicStr("nil pointer dereference (method call on nil interface: " + name + ")")
	}
	if nm, ok := itf.v.(nativeMethods); ok {
		return nm.callMethod(ex, name, args)
	}
	m := ex.findMethod(itf.t, name)
	if m == nil {
		ex.unsupported("no method %s on %s", name, itf.t)
	}
	return ex.callSSA(fr, 0, m, append([]Value{itf.v}, args...), nil)
}

func (ex *Exec) fileWrite(h *fsHandle, p []Value, at int, op string) (int, iface) {
	if h.closed {
		return 0, ex.fsErr(op, h.path, "ErrClosed")
	}
	if h.flag&(oWRONLY|oRDWR) == 0 {
		return 0, ex.newErr(op + " " + h.path + ": bad file descriptor")
	}
	if len(p) == 0 {
		return 0, iface{}
	}
	if ex.fsMutating("write", h.path) {
		// a failed write may have written a prefix: model "nothing or a strict prefix"
		st := ex.fs()
		if st.faults && len(p) > 1 && ex.Choose("fsfault:partial", 0, 1) == 1 {
			k := len(p) / 2
			ex.putBytes(h.node, p[:k], at)
			h.node.dirty = true
			return k, ex.ioErr(op, h.path)
		}
		return 0, ex.ioErr(op, h.path)
	}
	ex.putBytes(h.node, p, at)
	h.node.dirty = true
	h.node.complete = false
	h.wrote = true
	return len(p), iface{}
}

// sparseGap: a write or an extension this far past the materialised bytes is kept
// as a patch / a logical size instead of filling the gap with zero bytes.
const sparseGap = 1 << 20

func (ex *Exec) putBytes(n *fsNode, p []Value, at int) {
	if at > len(n.data)+sparseGap {
		if len(p) == 0 {
			if at > n.vsize {
				n.vsize = at
			}
			return
		}
		if n.patches == nil {
			n.patches = map[int][]Value{}
		}
		// a write that starts inside an earlier patch is merged into it; anything
		// else becomes a patch of its own (reads lay patches over the zero hole)
		for start, b := range n.patches {
			if at >= start && at <= start+len(b) {
				nb := append([]Value{}, b...)
				for i, v := range p {
					if k := at - start + i; k < len(nb) {
						nb[k] = v
					} else {
						nb = append(nb, v)
					}
				}
				n.patches[start] = nb
				if start+len(nb) > n.vsize {
					n.vsize = start + len(nb)
				}
				return
			}
		}
		n.patches[at] = append([]Value{}, p...)
		if at+len(p) > n.vsize {
			n.vsize = at + len(p)
		}
		return
	}
	for len(n.data) < at {
		n.data = append(n.data, K(8, 0))
	}
	for i, b := range p {
		if at+i < len(n.data) {
			n.data[at+i] = b
		} else {
			n.data = append(n.data, b)
		}
	}
}

func init() {
	extraIntrinsics = append(extraIntrinsics, registerFS)
}

func registerFS(e *Engine) {
	e.reg("os.OpenFile", func(ex *Exec, fr *frame, args []Value) Value {
		flag := int(constInt(ex, args[1], "OpenFile flag"))
		perm := uint32(constInt(ex, args[2], "OpenFile perm"))
		f, err := ex.openFile(ex.fsPath(args[0]), flag, perm)
		return tuple{f, err}
	})
	e.reg("os.Open", func(ex *Exec, fr *frame, args []Value) Value {
		f, err := ex.openFile(ex.fsPath(args[0]), oRDONLY, 0)
		return tuple{f, err}
	})
	e.reg("os.Create", func(ex *Exec, fr *frame, args []Value) Value {
		f, err := ex.openFile(ex.fsPath(args[0]), oRDWR|oCREATE|oTRUNC, 0o666)
		return tuple{f, err}
	})
	e.reg("os.CreateTemp", func(ex *Exec, fr *frame, args []Value) Value {
		dir := argStr(ex, args[0])
		if dir == "" {
			dir = "/tmp"
		}
		st := ex.fs()
		ex.ensureDirs(st, dir)
		n, _ := ex.ghost["tmpctr"].(int)
		ex.ghost["tmpctr"] = n + 1
		pat := argStr(ex, args[1])
		name := pat + fmt.Sprintf("%06d", n)
		if i := strings.LastIndex(pat, "*"); i >= 0 {
			name = pat[:i] + fmt.Sprintf("%06d", n) + pat[i+1:]
		}
		f, err := ex.openFile(cleanPath(dir+"/"+name), oRDWR|oCREATE|oEXCL, 0o600)
		return tuple{f, err}
	})
	e.reg("os.MkdirTemp", func(ex *Exec, fr *frame, args []Value) Value {
		dir := argStr(ex, args[0])
		if dir == "" {
			dir = "/tmp"
		}
		st := ex.fs()
		n, _ := ex.ghost["tmpctr"].(int)
		ex.ghost["tmpctr"] = n + 1
		p := cleanPath(dir + "/" + strings.ReplaceAll(argStr(ex, args[1]), "*", "") + fmt.Sprintf("%06d", n))
		ex.ensureDirs(st, p)
		return tuple{p, iface{}}
	})
	e.reg("(*os.File).Name", func(ex *Exec, fr *frame, args []Value) Value { return ex.handleOf(args[0]).path })
	e.reg("(*os.File).Write", func(ex *Exec, fr *frame, args []Value) Value {
		h := ex.handleOf(args[0])
		at := h.pos
		if h.flag&oAPPEND != 0 {
			at = len(h.node.data)
		}
		n, err := ex.fileWrite(h, args[1].([]Value), at, "write")
		h.pos = at + n
		return tuple{K(64, uint64(n)), err}
	})
	e.reg("(*os.File).WriteString", func(ex *Exec, fr *frame, args []Value) Value {
		h := ex.handleOf(args[0])
		at := h.pos
		if h.flag&oAPPEND != 0 {
			at = len(h.node.data)
		}
		n, err := ex.fileWrite(h, bytesOfString(argStr(ex, args[1])), at, "write")
		h.pos = at + n
		return tuple{K(64, uint64(n)), err}
	})
	e.reg("(*os.File).WriteAt", func(ex *Exec, fr *frame, args []Value) Value {
		h := ex.handleOf(args[0])
		off := int(ex.concreteInt(args[2], "WriteAt offset", true))
		n, err := ex.fileWrite(h, args[1].([]Value), off, "writeat")
		return tuple{K(64, uint64(n)), err}
	})
	readAt := func(ex *Exec, h *fsHandle, p []Value, off int) (int, iface) {
		if h.closed {
			return 0, ex.fsErr("read", h.path, "ErrClosed")
		}
		st := ex.fs()
		if st.faults && ex.Choose("fsfault:read", 0, 1) == 1 {
			st.trace = append(st.trace, "FAIL read "+h.path)
			return 0, ex.ioErr("read", h.path)
		}
		size := len(h.node.data)
		if h.node.vsize > size {
			size = h.node.vsize
		}
		if off >= size {
			if len(p) == 0 {
				return 0, iface{}
			}
			return 0, ex.ioGlobalErr("io", "EOF")
		}
		n := 0
		if off < len(h.node.data) {
			n = copy(p, h.node.data[off:])
		}
		// the sparse remainder reads as zeros
		z := K(8, 0)
		for n < len(p) && off+n < size {
			p[n] = z
			n++
		}
		// except where the harness patched bytes in
		for at, b := range h.node.patches {
			for i, v := range b {
				if k := at + i - off; k >= 0 && k < n {
					p[k] = v
				}
			}
		}
		return n, iface{}
	}
	e.reg("(*os.File).Read", func(ex *Exec, fr *frame, args []Value) Value {
		h := ex.handleOf(args[0])
		n, err := readAt(ex, h, args[1].([]Value), h.pos)
		h.pos += n
		return tuple{K(64, uint64(n)), err}
	})
	e.reg("(*os.File).ReadAt", func(ex *Exec, fr *frame, args []Value) Value {
		h := ex.handleOf(args[0])
		p := args[1].([]Value)
		off := int(ex.concreteInt(args[2], "ReadAt offset", true))
		n, err := readAt(ex, h, p, off)
		if err.t == nil && n < len(p) {
			err = ex.ioGlobalErr("io", "EOF")
		}
		return tuple{K(64, uint64(n)), err}
	})
	// ReadFrom: the copy loop of io.Copy(f, r)
	e.reg("(*os.File).ReadFrom", func(ex *Exec, fr *frame, args []Value) Value {
		h := ex.handleOf(args[0])
		r := args[1].(iface)
		total := 0
		for iter := 0; ; iter++ {
			if iter > 100000 {
				ex.abort(abBudget, "ReadFrom: reader never ends")
			}
			buf := make([]Value, 32*1024)
			for i := range buf {
				buf[i] = K(8, 0)
			}
			out := ex.invoke(fr, r, "Read", buf).(tuple)
			n := int(ex.concreteInt(out[0], "Read n", true))
			rerr := out[1].(iface)
			if n > 0 {
				at := h.pos
				if h.flag&oAPPEND != 0 {
					at = len(h.node.data)
				}
				w, werr := ex.fileWrite(h, buf[:n], at, "write")
				h.pos = at + w
				total += w
				if werr.t != nil {
					return tuple{K(64, uint64(total)), werr}
				}
			}
			if rerr.t != nil {
				if ex.errorsIs(rerr, ex.ioGlobalErr("io", "EOF"), 0) {
					return tuple{K(64, uint64(total)), iface{}}
				}
				return tuple{K(64, uint64(total)), rerr}
			}
		}
	})
	e.reg("(*os.File).WriteTo", func(ex *Exec, fr *frame, args []Value) Value {
		h := ex.handleOf(args[0])
		w := args[1].(iface)
		if h.pos >= len(h.node.data) {
			return tuple{K(64, 0), iface{}}
		}
		p := append([]Value(nil), h.node.data[h.pos:]...)
		out := ex.invoke(fr, w, "Write", p).(tuple)
		n := int(ex.concreteInt(out[0], "Write n", true))
		h.pos += n
		return tuple{K(64, uint64(n)), out[1]}
	})
	e.reg("(*os.File).Seek", func(ex *Exec, fr *frame, args []Value) Value {
		h := ex.handleOf(args[0])
		off := int(ex.concreteInt(args[1], "Seek offset", true))
		switch constInt(ex, args[2], "whence") {
		case 0:
			h.pos = off
		case 1:
			h.pos += off
		case 2:
			h.pos = len(h.node.data) + off
		}
		if h.pos < 0 {
			h.pos = 0
			return tuple{K(64, 0), ex.newErr("seek: invalid argument")}
		}
		return tuple{K(64, uint64(h.pos)), iface{}}
	})
	e.reg("(*os.File).Close", func(ex *Exec, fr *frame, args []Value) Value {
		p, _ := args[0].(*Value)
		if p == nil {
			return ex.fsErr("close", "", "ErrInvalid")
		}
		h := ex.handleOf(args[0])
		if h.closed {
			return ex.fsErr("close", h.path, "ErrClosed")
		}
		h.closed = true
		if h.flag&(oWRONLY|oRDWR) != 0 {
			h.node.openW--
			if h.node.openW == 0 {
				h.node.complete = true
			}
		}
		st := ex.fs()
		st.trace = append(st.trace, "close "+h.path)
		if st.faults && h.flag&(oWRONLY|oRDWR) != 0 && ex.Choose("fsfault:close", 0, 1) == 1 {
			st.trace = append(st.trace, "FAIL close "+h.path)
			return ex.ioErr("close", h.path)
		}
		return iface{}
	})
	e.reg("(*os.File).Sync", func(ex *Exec, fr *frame, args []Value) Value {
		h := ex.handleOf(args[0])
		if h.closed {
			return ex.fsErr("sync", h.path, "ErrClosed")
		}
		st := ex.fs()
		if st.faults && ex.Choose("fsfault:fsync", 0, 1) == 1 {
			st.trace = append(st.trace, "FAIL fsync "+h.path)
			return ex.ioErr("sync", h.path)
		}
		st.trace = append(st.trace, "fsync "+h.path)
		if h.node.isDir {
			h.node.entriesDirty = false
			// only the directory that is still linked at this path: a handle on a
			// removed directory flushes nothing of the one created in its place
			if st.nodes[h.path] == h.node {
				delete(st.pending, h.path)
			}
		} else {
			h.node.dirty = false
		}
		return iface{}
	})
	e.reg("(*os.File).Truncate", func(ex *Exec, fr *frame, args []Value) Value {
		h := ex.handleOf(args[0])
		size := int(ex.concreteInt(args[1], "Truncate size", true))
		if ex.fsMutating("truncate", h.path) {
			return ex.ioErr("truncate", h.path)
		}
		if size < len(h.node.data) {
			h.node.data = h.node.data[:size]
		} else {
			ex.putBytes(h.node, nil, size)
		}
		// a sparse file is cut at its logical size; patches past the cut are gone
		if h.node.vsize > size {
			h.node.vsize = size
		}
		for at, b := range h.node.patches {
			if at >= size {
				delete(h.node.patches, at)
			} else if at+len(b) > size {
				h.node.patches[at] = b[:size-at]
			}
		}
		h.node.dirty = true
		return iface{}
	})
	e.reg("(*os.File).Stat", func(ex *Exec, fr *frame, args []Value) Value {
		h := ex.handleOf(args[0])
		if h.closed {
			return tuple{iface{}, ex.fsErr("stat", h.path, "ErrClosed")}
		}
		return tuple{ex.infoOf(h.node, h.path), iface{}}
	})
	e.reg("(*os.File).Chmod", func(ex *Exec, fr *frame, args []Value) Value { return iface{} })
	e.reg("(*os.File).Chown", func(ex *Exec, fr *frame, args []Value) Value { return iface{} })
	e.reg("(*os.File).Fd", func(ex *Exec, fr *frame, args []Value) Value { return K(64, 99) })
	e.reg("(*os.File).Readdir", func(ex *Exec, fr *frame, args []Value) Value {
		h := ex.handleOf(args[0])
		st := ex.fs()
		var out []Value
		for _, c := range st.children(h.path) {
			out = append(out, ex.infoOf(st.nodes[c], c))
		}
		if out == nil {
			out = []Value{}
		}
		return tuple{out, iface{}}
	})
	e.reg("(*os.File).ReadDir", func(ex *Exec, fr *frame, args []Value) Value {
		h := ex.handleOf(args[0])
		st := ex.fs()
		var out []Value
		for _, c := range st.children(h.path) {
			out = append(out, ex.infoOf(st.nodes[c], c))
		}
		if out == nil {
			out = []Value{}
		}
		return tuple{out, iface{}}
	})
	e.reg("(*os.File).Readdirnames", func(ex *Exec, fr *frame, args []Value) Value {
		h := ex.handleOf(args[0])
		st := ex.fs()
		out := []Value{}
		for _, c := range st.children(h.path) {
			out = append(out, baseName(c))
		}
		return tuple{out, iface{}}
	})
	stat := func(ex *Exec, fr *frame, args []Value) Value {
		p := ex.fsPath(args[0])
		st := ex.fs()
		n := st.nodes[p]
		if n == nil {
			return tuple{iface{}, ex.fsErr("stat", p, "ErrNotExist")}
		}
		if st.faults && ex.Choose("fsfault:stat", 0, 1) == 1 {
			return tuple{iface{}, ex.ioErr("stat", p)}
		}
		return tuple{ex.infoOf(n, p), iface{}}
	}
	e.reg("os.Stat", stat)
	e.reg("os.Lstat", stat)
	e.reg("os.Rename", func(ex *Exec, fr *frame, args []Value) Value {
		src, dst := ex.fsPath(args[0]), ex.fsPath(args[1])
		st := ex.fs()
		n := st.nodes[src]
		if n == nil {
			return ex.fsErr("rename", src, "ErrNotExist")
		}
		if d := st.nodes[parentDir(dst)]; d == nil || !d.isDir {
			return ex.fsErr("rename", dst, "ErrNotExist")
		}
		if ex.fsMutating("rename", src+" -> "+dst) {
			return ex.ioErr("rename", src)
		}
		// ghost: ordering rule "flushed before published"
		if n.dirty && !n.isDir {
			st.events = append(st.events, "rename-of-unsynced-file "+dst)
		}
		if n.openW > 0 {
			st.events = append(st.events, "rename-of-open-file "+dst)
		}
		// ghost: "what a published name vouches for was flushed first" (vx.FSPublishGuard)
		if g, ok := st.guards[dst]; ok {
			if gn := st.nodes[g]; gn != nil && gn.dirty {
				st.events = append(st.events, "publish-beside-unsynced-file "+dst)
			}
		}
		delete(st.nodes, src)
		if n.isDir {
			// move the subtree
			pre := src + "/"
			for p, c := range st.nodes {
				if strings.HasPrefix(p, pre) {
					delete(st.nodes, p)
					st.nodes[dst+"/"+p[len(pre):]] = c
				}
			}
		}
		st.nodes[dst] = n
		st.nodes[parentDir(src)].entriesDirty = true
		st.nodes[parentDir(dst)].entriesDirty = true
		st.published = append(st.published, dst)
		if st.pending == nil {
			st.pending = map[string][]string{}
		}
		st.pending[parentDir(dst)] = append(st.pending[parentDir(dst)], dst)
		return iface{}
	})
	e.reg("os.RemoveAll", func(ex *Exec, fr *frame, args []Value) Value {
		p := ex.fsPath(args[0])
		st := ex.fs()
		if st.nodes[p] == nil {
			return iface{}
		}
		if ex.fsMutating("unlink-all", p) {
			return ex.ioErr("removeall", p)
		}
		pre := p + "/"
		for q := range st.nodes {
			if q == p || strings.HasPrefix(q, pre) {
				delete(st.nodes, q)
			}
		}
		if d := st.nodes[parentDir(p)]; d != nil {
			d.entriesDirty = true
		}
		return iface{}
	})
	e.reg("os.Mkdir", func(ex *Exec, fr *frame, args []Value) Value {
		p := ex.fsPath(args[0])
		st := ex.fs()
		if st.nodes[p] != nil {
			return ex.fsErr("mkdir", p, "ErrExist")
		}
		d := st.nodes[parentDir(p)]
		if d == nil {
			return ex.fsErr("mkdir", p, "ErrNotExist")
		}
		if ex.fsMutating("mkdir", p) {
			return ex.ioErr("mkdir", p)
		}
		st.nodes[p] = &fsNode{name: p, isDir: true, mode: 0o755}
		d.entriesDirty = true
		return iface{}
	})
	e.reg("os.MkdirAll", func(ex *Exec, fr *frame, args []Value) Value {
		p := ex.fsPath(args[0])
		st := ex.fs()
		if n := st.nodes[p]; n != nil {
			if n.isDir {
				return iface{}
			}
			return ex.newErr("mkdir " + p + ": not a directory")
		}
		if ex.fsMutating("mkdir", p) {
			return ex.ioErr("mkdir", p)
		}
		ex.ensureDirs(st, p)
		return iface{}
	})
	e.reg("os.ReadFile", func(ex *Exec, fr *frame, args []Value) Value {
		p := ex.fsPath(args[0])
		st := ex.fs()
		n := st.nodes[p]
		if n == nil {
			return tuple{[]Value(nil), ex.fsErr("open", p, "ErrNotExist")}
		}
		if st.faults && ex.Choose("fsfault:read", 0, 1) == 1 {
			return tuple{[]Value(nil), ex.ioErr("read", p)}
		}
		return tuple{append([]Value{}, n.data...), iface{}}
	})
	e.reg("os.WriteFile", func(ex *Exec, fr *frame, args []Value) Value {
		p := ex.fsPath(args[0])
		f, err := ex.openFile(p, oWRONLY|oCREATE|oTRUNC, uint32(constInt(ex, args[2], "perm")))
		if err.t != nil {
			return err
		}
		h := ex.handleOf(f)
		_, werr := ex.fileWrite(h, args[1].([]Value), 0, "write")
		h.closed = true
		h.node.openW--
		if h.node.openW == 0 {
			h.node.complete = werr.t == nil
		}
		return werr
	})
	e.reg("os.ReadDir", func(ex *Exec, fr *frame, args []Value) Value {
		p := ex.fsPath(args[0])
		st := ex.fs()
		n := st.nodes[p]
		if n == nil {
			return tuple{[]Value(nil), ex.fsErr("open", p, "ErrNotExist")}
		}
		out := []Value{}
		for _, c := range st.children(p) {
			out = append(out, ex.infoOf(st.nodes[c], c))
		}
		return tuple{out, iface{}}
	})
	e.reg("os.Chtimes", func(ex *Exec, fr *frame, args []Value) Value {
		p := ex.fsPath(args[0])
		st := ex.fs()
		n := st.nodes[p]
		if n == nil {
			return ex.fsErr("chtimes", p, "ErrNotExist")
		}
		if ex.fsMutating("chtimes", p) {
			return ex.ioErr("chtimes", p)
		}
		n.mtime = copyVal(args[2])
		return iface{}
	})
	ok := func(ex *Exec, fr *frame, args []Value) Value { return iface{} }
	e.reg("os.Chmod", ok)
	e.reg("os.Chown", ok)
	e.reg("os.Lchown", ok)
	e.reg("os.Getuid", func(ex *Exec, fr *frame, args []Value) Value { return K(64, 1000) })
	e.reg("os.Getgid", func(ex *Exec, fr *frame, args []Value) Value { return K(64, 1000) })
	e.reg("os.Truncate", func(ex *Exec, fr *frame, args []Value) Value {
		p := ex.fsPath(args[0])
		st := ex.fs()
		n := st.nodes[p]
		if n == nil {
			return ex.fsErr("truncate", p, "ErrNotExist")
		}
		size := int(ex.concreteInt(args[1], "Truncate size", true))
		if ex.fsMutating("truncate", p) {
			return ex.ioErr("truncate", p)
		}
		if size < len(n.data) {
			n.data = n.data[:size]
		} else {
			ex.putBytes(n, nil, size)
		}
		n.dirty = true
		return iface{}
	})
	e.reg("path/filepath.Walk", func(ex *Exec, fr *frame, args []Value) Value {
		root := ex.fsPath(args[0])
		st := ex.fs()
		var paths []string
		for p := range st.nodes {
			if p == root || strings.HasPrefix(p, root+"/") {
				paths = append(paths, p)
			}
		}
		sort.Strings(paths)
		if st.nodes[root] == nil {
			out := ex.call(fr, 0, args[1], []Value{root, iface{}, ex.fsErr("lstat", root, "ErrNotExist")})
			return out
		}
		skip := ""
		for _, p := range paths {
			if skip != "" && strings.HasPrefix(p, skip+"/") {
				continue
			}
			n := st.nodes[p]
			if n == nil {
				continue // removed by an earlier callback
			}
			out := ex.call(fr, 0, args[1], []Value{p, ex.infoOf(n, p), iface{}}).(iface)
			if out.t != nil {
				if ex.errorsIs(out, ex.ioGlobalErr("io/fs", "SkipDir"), 0) {
					if n.isDir {
						skip = p
					} else {
						skip = parentDir(p)
					}
					continue
				}
				if ex.errorsIs(out, ex.ioGlobalErr("io/fs", "SkipAll"), 0) {
					return iface{}
				}
				return out
			}
		}
		return iface{}
	})
	e.reg("path/filepath.Glob", func(ex *Exec, fr *frame, args []Value) Value {
		pat := argStr(ex, args[0])
		st := ex.fs()
		var out []Value
		var paths []string
		for p := range st.nodes {
			paths = append(paths, p)
		}
		sort.Strings(paths)
		for _, p := range paths {
			if ok, _ := matchGlob(pat, p); ok {
				out = append(out, p)
			}
		}
		return tuple{out, iface{}}
	})
}

func matchGlob(pat, p string) (bool, error) {
	// filepath.Match semantics per path element
	pp := strings.Split(pat, "/")
	sp := strings.Split(p, "/")
	if len(pp) != len(sp) {
		return false, nil
	}
	for i := range pp {
		ok, err := pathMatch(pp[i], sp[i])
		if err != nil || !ok {
			return false, err
		}
	}
	return true, nil
}

var _ = ssa.NewProgram
