package main

// Intrinsics: functions whose semantics the engine supplies itself.

import (
	"fmt"
	"go/types"
	"strings"

	"golang.org/x/tools/go/ssa"
)

const symMarker = "⟨sym⟩"

const vxPath = "github.com/benbjohnson/litestream/internal/vx"

func registerIntrinsics(e *Engine) {
	registerVx(e)
	registerFmtErrors(e)
	registerLogging(e)
	registerSync(e)
	registerContext(e)
	registerTime(e)
	registerMisc(e)
	registerIO(e)
	registerClockVx(e)
	for _, f := range extraIntrinsics {
		f(e)
	}
}

func (e *Engine) reg(name string, in intrinsic) { e.intr[name] = in }

func argStr(ex *Exec, v Value) string {
	s, ok := v.(string)
	if !ok {
		ex.unsupported("expected concrete string, got %T", v)
	}
	return s
}

func argTerm(v Value) *Term { return v.(*Term) }

// ---- vx ----

func registerVx(e *Engine) {
	in := func(w int) intrinsic {
		return func(ex *Exec, fr *frame, args []Value) Value {
			return ex.NewInput(argStr(ex, args[0]), w)
		}
	}
	e.reg(vxPath+".U8", in(8))
	e.reg(vxPath+".U16", in(16))
	e.reg(vxPath+".U32", in(32))
	e.reg(vxPath+".U64", in(64))
	e.reg(vxPath+".I64", in(64))
	e.reg(vxPath+".I32", in(32))
	e.reg(vxPath+".Int", in(64))
	e.reg(vxPath+".Bool", func(ex *Exec, fr *frame, args []Value) Value {
		v := ex.NewInput(argStr(ex, args[0]), 64)
		return ex.ts.Eq(ex.ts.Extract(v, 0, 0), K(1, 1))
	})
	e.reg(vxPath+".Bytes", func(ex *Exec, fr *frame, args []Value) Value {
		name := argStr(ex, args[0])
		n := ex.concreteInt(args[1], "Bytes n", true)
		// Aligned groups of four bytes are slices of one 32-bit variable (big-endian),
		// so that a big-endian word read of them is the variable itself and the solver
		// can eliminate "stored == computed" equalities. The model is split back into
		// the per-byte inputs the native side reads.
		out := make([]Value, n)
		for i := 0; i < int(n); {
			if i+4 <= int(n) && ex.replay == nil {
				var names [4]string
				for j := 0; j < 4; j++ {
					names[j] = ex.inputName(fmt.Sprintf("%s[%d]", name, i+j))
				}
				w := ex.ts.Var(fmt.Sprintf("%s.w[%d]#%s", name, i/4, names[0][strings.LastIndexByte(names[0], '#')+1:]), 32)
				ex.byteGroups = append(ex.byteGroups, byteGroup{word: w.Name, bytes: names})
				for j := 0; j < 4; j++ {
					out[i+j] = ex.ts.Extract(w, 31-8*j, 24-8*j)
				}
				i += 4
				continue
			}
			out[i] = ex.NewInput(fmt.Sprintf("%s[%d]", name, i), 8)
			i++
		}
		return out
	})
	e.reg(vxPath+".Choose", func(ex *Exec, fr *frame, args []Value) Value {
		lo := ex.concreteInt(args[1], "Choose lo", true)
		hi := ex.concreteInt(args[2], "Choose hi", true)
		return K(64, uint64(int64(ex.Choose(argStr(ex, args[0]), int(lo), int(hi)))))
	})
	e.reg(vxPath+".Fault", func(ex *Exec, fr *frame, args []Value) Value {
		return KBool(ex.Choose(argStr(ex, args[0]), 0, 1) == 1)
	})
	e.reg(vxPath+".Assume", func(ex *Exec, fr *frame, args []Value) Value {
		ex.Assume(argTerm(args[0]))
		return nil
	})
	e.reg(vxPath+".Assert", func(ex *Exec, fr *frame, args []Value) Value {
		ex.Assert(argStr(ex, args[0]), argTerm(args[1]))
		return nil
	})
	e.reg(vxPath+".Known", func(ex *Exec, fr *frame, args []Value) Value {
		ex.Known(argStr(ex, args[0]), argTerm(args[1]))
		return nil
	})
	e.reg(vxPath+".Reach", func(ex *Exec, fr *frame, args []Value) Value {
		ex.res.Reached["reach:"+argStr(ex, args[0])]++
		return nil
	})
	e.reg(vxPath+".Observe", func(ex *Exec, fr *frame, args []Value) Value {
		t := argTerm(args[1])
		if t.IsConst() {
			ex.res.Observed = append(ex.res.Observed, fmt.Sprintf("%s=%d", argStr(ex, args[0]), t.C))
		} else {
			ex.res.Observed = append(ex.res.Observed, fmt.Sprintf("%s=?", argStr(ex, args[0])))
			ex.obsTerms = append(ex.obsTerms, obsTerm{len(ex.res.Observed) - 1, argStr(ex, args[0]), t})
		}
		return nil
	})
	e.reg(vxPath+".ObserveBool", func(ex *Exec, fr *frame, args []Value) Value {
		t := argTerm(args[1])
		if t.IsConst() {
			ex.res.Observed = append(ex.res.Observed, fmt.Sprintf("%s=%d", argStr(ex, args[0]), t.C))
		} else {
			ex.res.Observed = append(ex.res.Observed, fmt.Sprintf("%s=?", argStr(ex, args[0])))
			ex.obsTerms = append(ex.obsTerms, obsTerm{len(ex.res.Observed) - 1, argStr(ex, args[0]), ex.ts.Ite(t, K(64, 1), K(64, 0))})
		}
		return nil
	})
	e.reg(vxPath+".And", func(ex *Exec, fr *frame, args []Value) Value { return ex.ts.And(argTerm(args[0]), argTerm(args[1])) })
	e.reg(vxPath+".Or", func(ex *Exec, fr *frame, args []Value) Value { return ex.ts.Or(argTerm(args[0]), argTerm(args[1])) })
	e.reg(vxPath+".Not", func(ex *Exec, fr *frame, args []Value) Value { return ex.ts.Not(argTerm(args[0])) })
	e.reg(vxPath+".Implies", func(ex *Exec, fr *frame, args []Value) Value {
		return ex.ts.Implies(argTerm(args[0]), argTerm(args[1]))
	})
	e.reg(vxPath+".Iff", func(ex *Exec, fr *frame, args []Value) Value { return ex.ts.Eq(argTerm(args[0]), argTerm(args[1])) })
	e.reg(vxPath+".IteU64", func(ex *Exec, fr *frame, args []Value) Value {
		return ex.ts.Ite(argTerm(args[0]), argTerm(args[1]), argTerm(args[2]))
	})
	for _, n := range []string{"IteU32", "IteI64", "IteInt"} {
		e.reg(vxPath+"."+n, func(ex *Exec, fr *frame, args []Value) Value {
			return ex.ts.Ite(argTerm(args[0]), argTerm(args[1]), argTerm(args[2]))
		})
	}
	e.reg(vxPath+".IteBool", func(ex *Exec, fr *frame, args []Value) Value {
		return ex.ts.Ite(argTerm(args[0]), argTerm(args[1]), argTerm(args[2]))
	})
	e.reg(vxPath+".Concrete", func(ex *Exec, fr *frame, args []Value) Value {
		t := argTerm(args[0])
		if t.IsConst() {
			return t
		}
		return K(64, uint64(ex.concretize(t, "vx.Concrete", false)))
	})
}

type obsTerm struct {
	idx  int
	name string
	t    *Term
}

// ---- fmt / errors ----

type nativeErr struct {
	msg     string
	wrapped []iface
}

var nativeErrType types.Type = types.NewNamed(types.NewTypeName(0, nil, "gosym.error", nil), types.NewStruct(nil, nil), nil)

func (ne *nativeErr) callMethod(ex *Exec, name string, args []Value) Value {
	switch name {
	case "Error":
		return ne.msg
	case "Unwrap":
		if len(ne.wrapped) == 0 {
			return iface{}
		}
		return ne.wrapped[0]
	}
	ex.unsupported("method %s on engine error", name)
	return nil
}

func (ex *Exec) newErr(msg string, wrapped ...iface) iface {
	return iface{t: nativeErrType, v: &nativeErr{msg: msg, wrapped: wrapped}}
}

// fmtArg renders one operand of a formatting call as a native Go value.
func (ex *Exec) fmtArg(v Value) any {
	switch v := v.(type) {
	case iface:
		if v.t == nil {
			return nil
		}
		if ne, ok := v.v.(*nativeErr); ok {
			return fmtStringer(ne.msg)
		}
		if _, ok := v.v.(nativeMethods); ok {
			return fmtStringer("<native>")
		}
		// Error() / String() methods
		for _, mname := range []string{"Error", "String"} {
			if m := ex.findMethod(v.t, mname); m != nil {
				sig := m.Signature
				if sig.Params().Len() == 0 && sig.Results().Len() == 1 && isString(sig.Results().At(0).Type()) {
					if t, ok := v.v.(*Term); ok && !t.IsConst() {
						return fmtStringer(symMarker)
					}
					if p, ok := v.v.(*Value); ok && p == nil {
						return fmtStringer("<nil>")
					}
					var out Value
					func() {
						defer func() {
							if r := recover(); r != nil {
								if pa, ok := r.(pathAbort); ok && pa.kind != abUnsupported {
									panic(r)
								}
								out = symMarker
							}
						}()
						out = ex.callSSA(nil, 0, m, []Value{v.v}, nil)
					}()
					if s, ok := out.(string); ok {
						return fmtStringer(s)
					}
				}
			}
		}
		return ex.fmtScalar(v.t, v.v)
	}
	return ex.fmtScalar(nil, v)
}

type fmtStringer string

func (s fmtStringer) String() string { return string(s) }
func (s fmtStringer) Error() string  { return string(s) }

func (ex *Exec) findMethod(t types.Type, name string) *ssa.Function {
	ms := ex.eng.prog.MethodSets.MethodSet(t)
	for i := 0; i < ms.Len(); i++ {
		sel := ms.At(i)
		if sel.Obj().Name() == name {
			return ex.eng.prog.MethodValue(sel)
		}
	}
	return nil
}

func (ex *Exec) fmtScalar(t types.Type, v Value) any {
	switch v := v.(type) {
	case *Term:
		if !v.IsConst() {
			return fmtStringer(symMarker)
		}
		if v.W == 0 {
			return v.C == 1
		}
		signed := true
		if t != nil {
			_, signed, _ = typeWidth(t)
		}
		if signed {
			return sext(v.C, v.W)
		}
		return v.C
	case string:
		return v
	case float64:
		return v
	case []Value:
		// []byte with concrete content prints as bytes
		b := make([]byte, 0, len(v))
		for _, e := range v {
			t, ok := e.(*Term)
			if !ok || !t.IsConst() || t.W != 8 {
				return fmtStringer(fmt.Sprintf("[%d elems]", len(v)))
			}
			b = append(b, byte(t.C))
		}
		return b
	case *Value:
		if v == nil {
			return nil
		}
		return fmtStringer(fmt.Sprintf("%p", v))
	case nil:
		return nil
	}
	return fmtStringer(valString(v))
}

func (ex *Exec) sprintf(format string, args []Value) string {
	native := make([]any, len(args))
	for i, a := range args {
		native[i] = ex.fmtArg(a)
	}
	// %w behaves like %v for text
	f := strings.ReplaceAll(format, "%w", "%v")
	return fmt.Sprintf(f, native...)
}

func variadic(v Value) []Value {
	if v == nil {
		return nil
	}
	return v.([]Value)
}

func registerFmtErrors(e *Engine) {
	e.reg("fmt.Errorf", func(ex *Exec, fr *frame, args []Value) Value {
		format := argStr(ex, args[0])
		va := variadic(args[1])
		msg := ex.sprintf(format, va)
		var wrapped []iface
		// operands of %w verbs, in order
		ai := 0
		for i := 0; i < len(format); i++ {
			if format[i] != '%' {
				continue
			}
			i++
			for i < len(format) && strings.ContainsRune("+-# 0123456789.*[]", rune(format[i])) {
				i++
			}
			if i >= len(format) {
				break
			}
			if format[i] == '%' {
				continue
			}
			if format[i] == 'w' && ai < len(va) {
				if it, ok := va[ai].(iface); ok && it.t != nil {
					wrapped = append(wrapped, it)
				}
			}
			ai++
		}
		return ex.newErr(msg, wrapped...)
	})
	e.reg("fmt.Sprintf", func(ex *Exec, fr *frame, args []Value) Value {
		return ex.sprintf(argStr(ex, args[0]), variadic(args[1]))
	})
	e.reg("fmt.Sprint", func(ex *Exec, fr *frame, args []Value) Value {
		va := variadic(args[0])
		native := make([]any, len(va))
		for i, a := range va {
			native[i] = ex.fmtArg(a)
		}
		return fmt.Sprint(native...)
	})
	e.reg("fmt.Sprintln", func(ex *Exec, fr *frame, args []Value) Value {
		va := variadic(args[0])
		native := make([]any, len(va))
		for i, a := range va {
			native[i] = ex.fmtArg(a)
		}
		return fmt.Sprintln(native...)
	})
	noop2 := func(ex *Exec, fr *frame, args []Value) Value { return tuple{K(64, 0), iface{}} }
	for _, n := range []string{"fmt.Printf", "fmt.Println", "fmt.Print"} {
		e.reg(n, noop2)
	}
	// Fprint*: format natively, then call the writer's Write method in the target
	fprint := func(render func(ex *Exec, args []Value) string) intrinsic {
		return func(ex *Exec, fr *frame, args []Value) Value {
			w := args[0].(iface)
			s := render(ex, args[1:])
			if w.t == nil {
				ex.targetPanicStr("nil pointer dereference (Fprint to nil writer)")
			}
			if types.Identical(w.t, types.NewPointer(ex.fileType())) {
				if p, _ := w.v.(*Value); p != nil {
					if _, isFile := ex.handles()[p]; !isFile {
						return tuple{K(64, uint64(len(s))), iface{}} // os.Stdout / os.Stderr
					}
				}
			}
			return ex.invoke(fr, w, "Write", bytesOfString(s))
		}
	}
	e.reg("fmt.Fprintf", fprint(func(ex *Exec, a []Value) string { return ex.sprintf(argStr(ex, a[0]), variadic(a[1])) }))
	e.reg("fmt.Fprintln", fprint(func(ex *Exec, a []Value) string {
		va := variadic(a[0])
		native := make([]any, len(va))
		for i, x := range va {
			native[i] = ex.fmtArg(x)
		}
		return fmt.Sprintln(native...)
	}))
	e.reg("fmt.Fprint", fprint(func(ex *Exec, a []Value) string {
		va := variadic(a[0])
		native := make([]any, len(va))
		for i, x := range va {
			native[i] = ex.fmtArg(x)
		}
		return fmt.Sprint(native...)
	}))
	e.reg("errors.Is", func(ex *Exec, fr *frame, args []Value) Value {
		return KBool(ex.errorsIs(args[0].(iface), args[1].(iface), 0))
	})
	e.reg("errors.As", func(ex *Exec, fr *frame, args []Value) Value {
		return KBool(ex.errorsAs(args[0].(iface), args[1].(iface), 0))
	})
	e.reg("errors.Unwrap", func(ex *Exec, fr *frame, args []Value) Value {
		us := ex.unwrapErr(args[0].(iface))
		if len(us) == 0 {
			return iface{}
		}
		return us[0]
	})
	e.reg("errors.Join", func(ex *Exec, fr *frame, args []Value) Value {
		var ws []iface
		var msgs []string
		for _, a := range variadic(args[0]) {
			it := a.(iface)
			if it.t != nil {
				ws = append(ws, it)
				msgs = append(msgs, ex.errString(it))
			}
		}
		if len(ws) == 0 {
			return iface{}
		}
		return ex.newErr(strings.Join(msgs, "\n"), ws...)
	})
}

func (ex *Exec) errString(it iface) string {
	if it.t == nil {
		return "<nil>"
	}
	if s, ok := ex.fmtArg(it).(fmtStringer); ok {
		return string(s)
	}
	return fmt.Sprint(ex.fmtArg(it))
}

// unwrapErr returns the errors directly wrapped by it.
func (ex *Exec) unwrapErr(it iface) []iface {
	if it.t == nil {
		return nil
	}
	if ne, ok := it.v.(*nativeErr); ok {
		return ne.wrapped
	}
	if _, ok := it.v.(nativeMethods); ok {
		return nil
	}
	m := ex.findMethod(it.t, "Unwrap")
	if m == nil || m.Signature.Params().Len() != 0 || m.Signature.Results().Len() != 1 {
		return nil
	}
	out := ex.callSSA(nil, 0, m, []Value{it.v}, nil)
	switch o := out.(type) {
	case iface:
		if o.t == nil {
			return nil
		}
		return []iface{o}
	case []Value:
		var r []iface
		for _, x := range o {
			if xi, ok := x.(iface); ok && xi.t != nil {
				r = append(r, xi)
			}
		}
		return r
	}
	return nil
}

func comparableIface(it iface) bool {
	if it.t == nil {
		return true
	}
	return types.Comparable(it.t) || it.t == nativeErrType
}

func (ex *Exec) errorsIs(err, target iface, depth int) bool {
	if ex.eng.verbose {
		fmt.Printf("errorsIs %s | %s\n", valString(err), valString(target))
	}
	if err.t == nil || target.t == nil {
		return err.t == nil && target.t == nil
	}
	if depth > 50 {
		ex.unsupported("errors.Is: chain too deep")
	}
	if comparableIface(target) && comparableIface(err) {
		eq := ex.eqVal(err, target)
		if ex.Branch(eq, "errors.Is eq") {
			return true
		}
	}
	if _, native := err.v.(nativeMethods); !native {
		if m := ex.findMethod(err.t, "Is"); m != nil && m.Signature.Params().Len() == 1 && m.Signature.Results().Len() == 1 {
			out := ex.callSSA(nil, 0, m, []Value{err.v, target}, nil)
			if t, ok := out.(*Term); ok && ex.Branch(t, "errors.Is method") {
				return true
			}
		}
	}
	for _, u := range ex.unwrapErr(err) {
		if ex.errorsIs(u, target, depth+1) {
			return true
		}
	}
	return false
}

func (ex *Exec) errorsAs(err, target iface, depth int) bool {
	if target.t == nil {
		ex.targetPanicStr("errors: target cannot be nil")
	}
	pt, ok := target.t.Underlying().(*types.Pointer)
	if !ok {
		ex.targetPanicStr("errors: target must be a non-nil pointer")
	}
	if err.t == nil {
		return false
	}
	if depth > 50 {
		ex.unsupported("errors.As: chain too deep")
	}
	et := pt.Elem()
	cell := target.v.(*Value)
	if it, ok := et.Underlying().(*types.Interface); ok {
		if ex.implements(err, it) {
			*cell = err
			return true
		}
	} else if _, native := err.v.(nativeMethods); !native && types.Identical(err.t, et) {
		*cell = copyVal(err.v)
		return true
	}
	for _, u := range ex.unwrapErr(err) {
		if ex.errorsAs(u, target, depth+1) {
			return true
		}
	}
	return false
}

// ---- logging / metrics ----

type opaque struct{ name string }

func registerLogging(e *Engine) {
	nop := func(ex *Exec, fr *frame, args []Value) Value { return nil }
	for _, m := range []string{"Debug", "Info", "Warn", "Error", "Log", "DebugContext", "InfoContext", "WarnContext", "ErrorContext", "LogAttrs"} {
		e.reg("(*log/slog.Logger)."+m, nop)
		e.reg("log/slog."+m, nop)
	}
	self := func(ex *Exec, fr *frame, args []Value) Value { return args[0] }
	e.reg("(*log/slog.Logger).With", self)
	e.reg("(*log/slog.Logger).WithGroup", self)
	e.reg("(*log/slog.Logger).Enabled", func(ex *Exec, fr *frame, args []Value) Value { return False })
	mkLogger := func(ex *Exec, fr *frame, args []Value) Value {
		if p, ok := ex.ghost["slog.default"].(*Value); ok {
			return p
		}
		var cell Value = native{obj: &opaque{"slog.Logger"}}
		ex.ghost["slog.default"] = &cell
		return &cell
	}
	e.reg("log/slog.Default", mkLogger)
	e.reg("log/slog.New", mkLogger)
	e.reg("log/slog.With", mkLogger)
	e.reg("log/slog.SetDefault", nop)
	for _, n := range []string{"log.Printf", "log.Println", "log.Print"} {
		e.reg(n, nop)
	}
	e.reg("log/slog.Group", func(ex *Exec, fr *frame, args []Value) Value {
		return zero(fr.fn.Signature.Results().At(0).Type())
	})
	for _, n := range []string{"String", "Int", "Int64", "Uint64", "Bool", "Any", "Duration", "Time", "Float64"} {
		e.reg("log/slog."+n, func(ex *Exec, fr *frame, args []Value) Value {
			return zero(fr.fn.Signature.Results().At(0).Type())
		})
	}
	// prometheus: every constructor returns an opaque collector; every method is a no-op
	// that returns an opaque collector where a value is expected.
	e.prefixIntr = append(e.prefixIntr, prefixIntrinsic{
		match: func(name string) bool {
			return strings.Contains(name, "github.com/prometheus/client_golang/")
		},
		in: func(ex *Exec, fr *frame, args []Value) Value {
			res := fr.fn.Signature.Results()
			switch res.Len() {
			case 0:
				return nil
			case 1:
				return ex.opaqueOf(res.At(0).Type())
			}
			out := make(tuple, res.Len())
			for i := range out {
				out[i] = ex.opaqueOf(res.At(i).Type())
			}
			return out
		},
	})
}

// opaqueOf builds a harmless value of type t: zero for data, a non-nil opaque
// object for pointers and interfaces (so that method calls on it dispatch).
func (ex *Exec) opaqueOf(t types.Type) Value {
	switch u := t.Underlying().(type) {
	case *types.Pointer:
		var cell Value = zero(u.Elem())
		return &cell
	case *types.Interface:
		if types.Identical(t, types.Universe.Lookup("error").Type()) {
			return iface{}
		}
		return iface{t: opaqueIfaceType, v: &opaqueObj{}}
	}
	return zero(t)
}

var opaqueIfaceType types.Type = types.NewNamed(types.NewTypeName(0, nil, "gosym.opaque", nil), types.NewStruct(nil, nil), nil)

type opaqueObj struct{}

func (o *opaqueObj) callMethod(ex *Exec, name string, args []Value) Value {
	// used for prometheus interfaces (Counter, Gauge, Observer): all no-ops
	return nil
}

type prefixIntrinsic struct {
	match func(name string) bool
	in    intrinsic
}

func init() {
	extraIntrinsics = append(extraIntrinsics, func(e *Engine) {
		e.reg(vxPath+".Param", func(ex *Exec, fr *frame, args []Value) Value {
			name := argStr(ex, args[0])
			def := ex.concreteInt(args[1], "Param default", true)
			v := def
			if pv, ok := ex.eng.params[name]; ok {
				v = pv
			}
			if ex.replay != nil {
				if rv, ok := ex.replay["param:"+name]; ok {
					v = int64(rv)
				}
			}
			ex.choices["param:"+name] = uint64(v)
			return K(64, uint64(v))
		})
	})
}

var extraIntrinsics []func(e *Engine)
