package main

import (
	"fmt"
	"go/types"
	"strings"

	"golang.org/x/tools/go/ssa"
)

// ---- sync / atomic (sequential ghost model) ----

type lockState struct {
	w int // writers held
	r int // readers held
}

func (ex *Exec) lockOf(p Value) *lockState {
	locks, _ := ex.ghost["locks"].(map[*Value]*lockState)
	if locks == nil {
		locks = map[*Value]*lockState{}
		ex.ghost["locks"] = locks
	}
	ptr, _ := p.(*Value)
	ls := locks[ptr]
	if ls == nil {
		ls = &lockState{}
		locks[ptr] = ls
	}
	return ls
}

func registerSync(e *Engine) {
	nop := func(ex *Exec, fr *frame, args []Value) Value { return nil }
	e.reg("(*sync.Mutex).Lock", func(ex *Exec, fr *frame, args []Value) Value {
		ls := ex.lockOf(args[0])
		if ls.w > 0 {
			ex.unsupported("sequential deadlock: Mutex.Lock while held")
		}
		ls.w++
		return nil
	})
	e.reg("(*sync.Mutex).TryLock", func(ex *Exec, fr *frame, args []Value) Value {
		ls := ex.lockOf(args[0])
		if ls.w > 0 {
			return False
		}
		ls.w++
		return True
	})
	e.reg("(*sync.Mutex).Unlock", func(ex *Exec, fr *frame, args []Value) Value {
		ls := ex.lockOf(args[0])
		if ls.w == 0 {
			ex.targetPanicStr("sync: unlock of unlocked mutex")
		}
		ls.w--
		return nil
	})
	e.reg("(*sync.RWMutex).Lock", func(ex *Exec, fr *frame, args []Value) Value {
		ls := ex.lockOf(args[0])
		if ls.w > 0 || ls.r > 0 {
			ex.unsupported("sequential deadlock: RWMutex.Lock while held (w=%d r=%d)", ls.w, ls.r)
		}
		ls.w++
		return nil
	})
	e.reg("(*sync.RWMutex).TryLock", func(ex *Exec, fr *frame, args []Value) Value {
		ls := ex.lockOf(args[0])
		if ls.w > 0 || ls.r > 0 {
			return False
		}
		ls.w++
		return True
	})
	e.reg("(*sync.RWMutex).Unlock", func(ex *Exec, fr *frame, args []Value) Value {
		ls := ex.lockOf(args[0])
		if ls.w == 0 {
			ex.targetPanicStr("sync: Unlock of unlocked RWMutex")
		}
		ls.w--
		return nil
	})
	e.reg("(*sync.RWMutex).RLock", func(ex *Exec, fr *frame, args []Value) Value {
		ls := ex.lockOf(args[0])
		if ls.w > 0 {
			ex.unsupported("sequential deadlock: RWMutex.RLock while write-held")
		}
		ls.r++
		return nil
	})
	e.reg("(*sync.RWMutex).TryRLock", func(ex *Exec, fr *frame, args []Value) Value {
		ls := ex.lockOf(args[0])
		if ls.w > 0 {
			return False
		}
		ls.r++
		return True
	})
	e.reg("(*sync.RWMutex).RUnlock", func(ex *Exec, fr *frame, args []Value) Value {
		ls := ex.lockOf(args[0])
		if ls.r == 0 {
			ex.targetPanicStr("sync: RUnlock of unlocked RWMutex")
		}
		ls.r--
		return nil
	})
	e.reg("(*sync.Once).Do", func(ex *Exec, fr *frame, args []Value) Value {
		done, _ := ex.ghost["once"].(map[*Value]bool)
		if done == nil {
			done = map[*Value]bool{}
			ex.ghost["once"] = done
		}
		p := args[0].(*Value)
		if !done[p] {
			done[p] = true
			ex.call(fr, 0, args[1], nil)
		}
		return nil
	})
	e.reg("(*sync.WaitGroup).Add", nop)
	e.reg("(*sync.WaitGroup).Done", nop)
	e.reg("(*sync.WaitGroup).Wait", nop)
	e.reg("(*sync.WaitGroup).Go", func(ex *Exec, fr *frame, args []Value) Value {
		ex.call(fr, 0, args[1], nil)
		return nil
	})
	e.reg("(*sync.Cond).Broadcast", nop)
	e.reg("(*sync.Cond).Signal", nop)
	e.reg("(*sync.Cond).Wait", func(ex *Exec, fr *frame, args []Value) Value {
		ex.unsupported("sync.Cond.Wait (sequential model)")
		return nil
	})
	e.reg("golang.org/x/sync/semaphore.NewWeighted", func(ex *Exec, fr *frame, args []Value) Value {
		var cell Value = zero(deref(fr.fn.Signature.Results().At(0).Type()))
		return &cell
	})
	e.reg("(*golang.org/x/sync/semaphore.Weighted).Acquire", func(ex *Exec, fr *frame, args []Value) Value {
		ls := ex.lockOf(args[0])
		ls.w++
		return iface{}
	})
	e.reg("(*golang.org/x/sync/semaphore.Weighted).TryAcquire", func(ex *Exec, fr *frame, args []Value) Value {
		ls := ex.lockOf(args[0])
		ls.w++
		return True
	})
	e.reg("(*golang.org/x/sync/semaphore.Weighted).Release", func(ex *Exec, fr *frame, args []Value) Value {
		ls := ex.lockOf(args[0])
		ls.w--
		return nil
	})
	// errgroup: run functions inline, remember the first error
	e.reg("(*golang.org/x/sync/errgroup.Group).Go", func(ex *Exec, fr *frame, args []Value) Value {
		out := ex.call(fr, 0, args[1], nil)
		if it, ok := out.(iface); ok && it.t != nil {
			errs, _ := ex.ghost["errgroup"].(map[*Value]iface)
			if errs == nil {
				errs = map[*Value]iface{}
				ex.ghost["errgroup"] = errs
			}
			p := args[0].(*Value)
			if _, have := errs[p]; !have {
				errs[p] = it
			}
		}
		return nil
	})
	e.reg("(*golang.org/x/sync/errgroup.Group).Wait", func(ex *Exec, fr *frame, args []Value) Value {
		errs, _ := ex.ghost["errgroup"].(map[*Value]iface)
		if it, ok := errs[args[0].(*Value)]; ok {
			return it
		}
		return iface{}
	})
	e.reg("(*golang.org/x/sync/errgroup.Group).SetLimit", nop)
	e.reg("golang.org/x/sync/errgroup.WithContext", func(ex *Exec, fr *frame, args []Value) Value {
		var cell Value = zero(deref(fr.fn.Signature.Results().At(0).Type()))
		return tuple{&cell, args[0]}
	})

	// sync/atomic functions
	for _, suf := range []string{"Int32", "Int64", "Uint32", "Uint64", "Uintptr"} {
		suf := suf
		e.reg("sync/atomic.Load"+suf, func(ex *Exec, fr *frame, args []Value) Value { return ex.load(args[0]) })
		e.reg("sync/atomic.Store"+suf, func(ex *Exec, fr *frame, args []Value) Value { ex.store(args[0], args[1]); return nil })
		e.reg("sync/atomic.Add"+suf, func(ex *Exec, fr *frame, args []Value) Value {
			v := ex.ts.Bin(OpAdd, ex.load(args[0]).(*Term), args[1].(*Term))
			ex.store(args[0], v)
			return v
		})
		e.reg("sync/atomic.Swap"+suf, func(ex *Exec, fr *frame, args []Value) Value {
			old := ex.load(args[0])
			ex.store(args[0], args[1])
			return old
		})
		e.reg("sync/atomic.CompareAndSwap"+suf, func(ex *Exec, fr *frame, args []Value) Value {
			cur := ex.load(args[0]).(*Term)
			if ex.Branch(ex.ts.Eq(cur, args[1].(*Term)), "CAS") {
				ex.store(args[0], args[2])
				return True
			}
			return False
		})
		e.reg("sync/atomic.And"+suf, func(ex *Exec, fr *frame, args []Value) Value {
			old := ex.load(args[0]).(*Term)
			ex.store(args[0], ex.ts.Bin(OpAnd, old, args[1].(*Term)))
			return old
		})
		e.reg("sync/atomic.Or"+suf, func(ex *Exec, fr *frame, args []Value) Value {
			old := ex.load(args[0]).(*Term)
			ex.store(args[0], ex.ts.Bin(OpOr, old, args[1].(*Term)))
			return old
		})
	}
	// atomic.Value and atomic.Pointer[T]: ghost cell per receiver
	cellOf := func(ex *Exec, p Value) *Value {
		cells, _ := ex.ghost["atomicval"].(map[*Value]*Value)
		if cells == nil {
			cells = map[*Value]*Value{}
			ex.ghost["atomicval"] = cells
		}
		ptr := p.(*Value)
		c := cells[ptr]
		if c == nil {
			c = new(Value)
			cells[ptr] = c
		}
		return c
	}
	e.reg("(*sync/atomic.Value).Load", func(ex *Exec, fr *frame, args []Value) Value {
		c := cellOf(ex, args[0])
		if *c == nil {
			return iface{}
		}
		return *c
	})
	e.reg("(*sync/atomic.Value).Store", func(ex *Exec, fr *frame, args []Value) Value {
		*cellOf(ex, args[0]) = args[1]
		return nil
	})
	e.reg("(*sync/atomic.Pointer).Load", func(ex *Exec, fr *frame, args []Value) Value {
		c := cellOf(ex, args[0])
		if *c == nil {
			return zero(fr.fn.Signature.Results().At(0).Type())
		}
		return *c
	})
	e.reg("(*sync/atomic.Pointer).Store", func(ex *Exec, fr *frame, args []Value) Value {
		*cellOf(ex, args[0]) = args[1]
		return nil
	})
	e.reg("(*sync/atomic.Pointer).Swap", func(ex *Exec, fr *frame, args []Value) Value {
		c := cellOf(ex, args[0])
		old := *c
		if old == nil {
			old = zero(fr.fn.Signature.Results().At(0).Type())
		}
		*c = args[1]
		return old
	})
	e.reg("(*sync/atomic.Pointer).CompareAndSwap", func(ex *Exec, fr *frame, args []Value) Value {
		c := cellOf(ex, args[0])
		cur := *c
		if cur == nil {
			cur = (*Value)(nil)
		}
		if cur == args[1] {
			*c = args[2]
			return True
		}
		return False
	})
	e.reg("(*sync/atomic.Bool).Load", func(ex *Exec, fr *frame, args []Value) Value {
		c := cellOf(ex, args[0])
		if *c == nil {
			return False
		}
		return *c
	})
	e.reg("(*sync/atomic.Bool).Store", func(ex *Exec, fr *frame, args []Value) Value {
		*cellOf(ex, args[0]) = args[1]
		return nil
	})
	e.reg("(*sync/atomic.Bool).Swap", func(ex *Exec, fr *frame, args []Value) Value {
		c := cellOf(ex, args[0])
		old := *c
		if old == nil {
			old = False
		}
		*c = args[1]
		return old
	})
	e.reg("(*sync/atomic.Bool).CompareAndSwap", func(ex *Exec, fr *frame, args []Value) Value {
		c := cellOf(ex, args[0])
		cur, _ := (*c).(*Term)
		if cur == nil {
			cur = False
		}
		if ex.Branch(ex.ts.Eq(cur, args[1].(*Term)), "CAS bool") {
			*c = args[2]
			return True
		}
		return False
	})
	// sync.Map, sync.Pool
	e.reg("(*sync.Pool).Get", func(ex *Exec, fr *frame, args []Value) Value {
		// call New if set
		p := args[0].(*Value)
		st := (*p).(structure)
		newFn := st[len(st)-1]
		if !isNilValue(newFn) {
			return ex.call(fr, 0, newFn, nil)
		}
		return iface{}
	})
	e.reg("(*sync.Pool).Put", nop)
}

// ---- context ----

type nativeCtx struct {
	parent    iface
	cancelled bool
	done      *Chan
	cause     iface
	key, val  Value
	hasVal    bool
	deadline  Value
}

var nativeCtxType types.Type = types.NewNamed(types.NewTypeName(0, nil, "gosym.ctx", nil), types.NewStruct(nil, nil), nil)

func (c *nativeCtx) isDone(ex *Exec) bool {
	if c.cancelled {
		return true
	}
	if p, ok := c.parent.v.(*nativeCtx); ok {
		return p.isDone(ex)
	}
	return false
}

func (c *nativeCtx) callMethod(ex *Exec, name string, args []Value) Value {
	switch name {
	case "Done":
		if c.done == nil {
			c.done = &Chan{elemT: types.NewStruct(nil, nil)}
		}
		if c.isDone(ex) {
			c.done.closed = true
		}
		return c.done
	case "Err":
		if c.isDone(ex) {
			g := ex.eng.globalByName("context", "Canceled")
			return ex.load(ex.globalAddr(g))
		}
		return iface{}
	case "Value":
		if c.hasVal && ex.eqVal(c.key, args[0]).IsTrue() {
			return c.val
		}
		if p, ok := c.parent.v.(*nativeCtx); ok {
			return p.callMethod(ex, "Value", args)
		}
		return iface{}
	case "Deadline":
		return tuple{zero(ex.eng.namedType("time", "Time")), False}
	}
	ex.unsupported("context method %s", name)
	return nil
}

func (e *Engine) globalByName(pkgPath, name string) *ssa.Global {
	for _, p := range e.prog.AllPackages() {
		if p.Pkg.Path() == pkgPath {
			if g, ok := p.Members[name].(*ssa.Global); ok {
				return g
			}
		}
	}
	panic("no global " + pkgPath + "." + name)
}

func (e *Engine) namedType(pkgPath, name string) types.Type {
	for _, p := range e.prog.AllPackages() {
		if p.Pkg.Path() == pkgPath {
			if t, ok := p.Members[name].(*ssa.Type); ok {
				return t.Type()
			}
		}
	}
	panic("no type " + pkgPath + "." + name)
}

func registerContext(e *Engine) {
	mk := func(ex *Exec, parent Value) (*nativeCtx, iface) {
		p, _ := parent.(iface)
		c := &nativeCtx{parent: p}
		return c, iface{t: nativeCtxType, v: c}
	}
	cancelFn := func(c *nativeCtx) nativeFunc {
		return func(ex *Exec, args []Value) Value {
			first := !c.cancelled
			c.cancelled = true
			if c.done != nil {
				c.done.closed = true
			}
			if first {
				ex.sqlContextCancelled(c)
			}
			return nil
		}
	}
	withCancel := func(ex *Exec, fr *frame, args []Value) Value {
		c, it := mk(ex, args[0])
		return tuple{it, cancelFn(c)}
	}
	e.reg("context.WithCancel", withCancel)
	e.reg("context.WithTimeout", withCancel)
	e.reg("context.WithDeadline", withCancel)
	e.reg("context.WithCancelCause", withCancel)
	e.reg("context.WithValue", func(ex *Exec, fr *frame, args []Value) Value {
		c, it := mk(ex, args[0])
		c.key, c.val, c.hasVal = args[1], args[2], true
		return it
	})
	e.reg("context.WithoutCancel", func(ex *Exec, fr *frame, args []Value) Value {
		_, it := mk(ex, iface{})
		return it
	})
	e.reg("context.Cause", func(ex *Exec, fr *frame, args []Value) Value {
		it := args[0].(iface)
		if c, ok := it.v.(*nativeCtx); ok {
			return c.callMethod(ex, "Err", nil)
		}
		return iface{}
	})
}

// ---- time ----
//
// time.Time is {wall uint64, ext int64, loc *Location}. Engine-made instants have
// wall = 0 (no monotonic reading, zero nanoseconds... unless stated) and ext =
// seconds since year 1, possibly symbolic.

const (
	timeHasMonotonic   = 1 << 63
	timeNsecMask       = 1<<30 - 1
	timeNsecShift      = 30
	timeWallToInternal = (1884*365 + 1884/4 - 1884/100 + 1884/400) * 86400
	timeUnixToInternal = (1969*365 + 1969/4 - 1969/100 + 1969/400) * 86400
)

// timeParts returns (sec, nsec) of a time.Time value; wall must be concrete.
func (ex *Exec) timeParts(v Value) (sec, nsec *Term) {
	st := v.(structure)
	wall := st[0].(*Term)
	ext := st[1].(*Term)
	if !wall.IsConst() {
		// wall symbolic: only the nsec-only form (no monotonic) is supported: harnesses
		// build such values with wall < 2^30.
		return ext, ex.ts.Bin(OpAnd, wall, K(64, timeNsecMask))
	}
	if wall.C&timeHasMonotonic != 0 {
		s := int64(wall.C << 1 >> (timeNsecShift + 1))
		return K(64, uint64(timeWallToInternal+s)), K(64, wall.C&timeNsecMask)
	}
	return ext, K(64, wall.C&timeNsecMask)
}

func (ex *Exec) mkTime(sec *Term, nsec *Term) Value {
	wall := K(64, 0)
	if nsec != nil {
		wall = nsec
	}
	return structure{wall, sec, (*Value)(nil)}
}

func (ex *Exec) timeLess(a, b Value) *Term {
	as, an := ex.timeParts(a)
	bs, bn := ex.timeParts(b)
	return ex.ts.Or(ex.ts.Cmp(OpSLt, as, bs), ex.ts.And(ex.ts.Eq(as, bs), ex.ts.Cmp(OpULt, an, bn)))
}

func (ex *Exec) timeEq(a, b Value) *Term {
	as, an := ex.timeParts(a)
	bs, bn := ex.timeParts(b)
	return ex.ts.And(ex.ts.Eq(as, bs), ex.ts.Eq(an, bn))
}

// clockNow returns a fresh instant not earlier than any previous one.
func (ex *Exec) clockNow() Value {
	if ex.initMode {
		return ex.mkTime(K(64, uint64(timeUnixToInternal+1_700_000_000)), nil)
	}
	// The clock stands still between explicit vx.ClockStep calls: a native replay
	// runs in microseconds, and harnesses keep every compared instant at least half
	// a second away from any threshold, so "no time passes" is what the native twin
	// sees too. Time passing is introduced by the harness (ClockStep: the native
	// twin really sleeps).
	if cur, ok := ex.ghost["clock"].(*Term); ok {
		return ex.mkTime(cur, nil)
	}
	lo := uint64(timeUnixToInternal + 1_600_000_000)
	hi := uint64(timeUnixToInternal + 1_900_000_000)
	var t *Term
	if ex.replay != nil {
		t = K(64, ex.replay["clock#0"])
		if t.C == 0 {
			t = K(64, lo)
		}
	} else {
		t = ex.ts.Var("clock#0", 64)
	}
	ex.assume(ex.ts.And(ex.ts.Cmp(OpULe, K(64, lo), t), ex.ts.Cmp(OpULe, t, K(64, hi))))
	ex.ghost["clock"] = t
	return ex.mkTime(t, nil)
}

func registerClockVx(e *Engine) {
	// vx.ClockStep(name, max): advance the clock by a symbolic number of whole seconds in [0,max].
	e.reg(vxPath+".ClockStep", func(ex *Exec, fr *frame, args []Value) Value {
		ex.clockNow()
		cur := ex.ghost["clock"].(*Term)
		max := ex.concreteInt(args[1], "ClockStep max", true)
		d := ex.NewInput(argStr(ex, args[0]), 64)
		ex.assume(ex.ts.Cmp(OpULe, d, K(64, uint64(max))))
		ex.ghost["clock"] = ex.ts.Bin(OpAdd, cur, d)
		return d
	})
	// vx.TimeAgo(base, ageSec) = base - ageSec seconds - 500 ms
	e.reg(vxPath+".TimeAgo", func(ex *Exec, fr *frame, args []Value) Value {
		s, n := ex.timeParts(args[0])
		if !n.IsConst() {
			ex.unsupported("TimeAgo of an instant with symbolic nanoseconds")
		}
		age := args[1].(*Term)
		ns := int64(n.C) - 500_000_000
		sec := ex.ts.Bin(OpSub, s, age)
		if ns < 0 {
			ns += 1_000_000_000
			sec = ex.ts.Bin(OpSub, sec, K(64, 1))
		}
		return ex.mkTime(sec, K(64, uint64(ns)))
	})
}

func init() {
	extraIntrinsics = append(extraIntrinsics, func(e *Engine) {
		// vx.TimeBack(base, ageSec) = base - ageSec seconds exactly (whole-second
		// instants that can coincide with a requested time)
		e.reg(vxPath+".Settle", func(ex *Exec, fr *frame, args []Value) Value { return nil })
		e.reg(vxPath+".TimeBack", func(ex *Exec, fr *frame, args []Value) Value {
			s, n := ex.timeParts(args[0])
			return ex.mkTime(ex.ts.Bin(OpSub, s, args[1].(*Term)), n)
		})
	})
}

func registerTime(e *Engine) {
	e.reg("time.Now", func(ex *Exec, fr *frame, args []Value) Value { return ex.clockNow() })
	e.reg("(time.Time).Before", func(ex *Exec, fr *frame, args []Value) Value { return ex.timeLess(args[0], args[1]) })
	e.reg("(time.Time).After", func(ex *Exec, fr *frame, args []Value) Value { return ex.timeLess(args[1], args[0]) })
	e.reg("(time.Time).Equal", func(ex *Exec, fr *frame, args []Value) Value { return ex.timeEq(args[0], args[1]) })
	e.reg("(time.Time).Compare", func(ex *Exec, fr *frame, args []Value) Value {
		lt := ex.timeLess(args[0], args[1])
		gt := ex.timeLess(args[1], args[0])
		return ex.ts.Ite(lt, K(64, ^uint64(0)), ex.ts.Ite(gt, K(64, 1), K(64, 0)))
	})
	e.reg("(time.Time).IsZero", func(ex *Exec, fr *frame, args []Value) Value {
		s, n := ex.timeParts(args[0])
		return ex.ts.And(ex.ts.Eq(s, K(64, 0)), ex.ts.Eq(n, K(64, 0)))
	})
	e.reg("(time.Time).Sub", func(ex *Exec, fr *frame, args []Value) Value {
		as, an := ex.timeParts(args[0])
		bs, bn := ex.timeParts(args[1])
		// seconds are kept within ±2^33 by construction, so no saturation is needed
		d := ex.ts.Bin(OpMul, ex.ts.Bin(OpSub, as, bs), K(64, 1_000_000_000))
		return ex.ts.Bin(OpAdd, d, ex.ts.Bin(OpSub, an, bn))
	})
	e.reg("time.Since", func(ex *Exec, fr *frame, args []Value) Value {
		now := ex.clockNow()
		as, an := ex.timeParts(now)
		bs, bn := ex.timeParts(args[0])
		d := ex.ts.Bin(OpMul, ex.ts.Bin(OpSub, as, bs), K(64, 1_000_000_000))
		return ex.ts.Bin(OpAdd, d, ex.ts.Bin(OpSub, an, bn))
	})
	e.reg("time.Until", func(ex *Exec, fr *frame, args []Value) Value {
		now := ex.clockNow()
		as, an := ex.timeParts(args[0])
		bs, bn := ex.timeParts(now)
		d := ex.ts.Bin(OpMul, ex.ts.Bin(OpSub, as, bs), K(64, 1_000_000_000))
		return ex.ts.Bin(OpAdd, d, ex.ts.Bin(OpSub, an, bn))
	})
	e.reg("(time.Time).Add", func(ex *Exec, fr *frame, args []Value) Value {
		s, n := ex.timeParts(args[0])
		d := args[1].(*Term)
		if d.IsConst() && n.IsConst() {
			dv := sext(d.C, 64)
			ns := int64(n.C) + dv%1_000_000_000
			ds := dv / 1_000_000_000
			if ns >= 1_000_000_000 {
				ns -= 1_000_000_000
				ds++
			} else if ns < 0 {
				ns += 1_000_000_000
				ds--
			}
			return structure{K(64, uint64(ns)), ex.ts.Bin(OpAdd, s, K(64, uint64(ds))), args[0].(structure)[2]}
		}
		ex.unsupported("time.Add with symbolic duration")
		return nil
	})
	self := func(ex *Exec, fr *frame, args []Value) Value { return args[0] }
	e.reg("(time.Time).UTC", self)
	e.reg("(time.Time).Local", self)
	e.reg("(time.Time).In", self)
	e.reg("(time.Time).Round", self)
	e.reg("(time.Time).Unix", func(ex *Exec, fr *frame, args []Value) Value {
		s, _ := ex.timeParts(args[0])
		return ex.ts.Bin(OpSub, s, K(64, uint64(timeUnixToInternal)))
	})
	e.reg("(time.Time).UnixMilli", func(ex *Exec, fr *frame, args []Value) Value {
		s, n := ex.timeParts(args[0])
		us := ex.ts.Bin(OpSub, s, K(64, uint64(timeUnixToInternal)))
		if !n.IsConst() {
			ex.unsupported("UnixMilli with symbolic nanoseconds")
		}
		return ex.ts.Bin(OpAdd, ex.ts.Bin(OpMul, us, K(64, 1000)), K(64, n.C/1_000_000))
	})
	e.reg("(time.Time).UnixNano", func(ex *Exec, fr *frame, args []Value) Value {
		s, n := ex.timeParts(args[0])
		us := ex.ts.Bin(OpSub, s, K(64, uint64(timeUnixToInternal)))
		return ex.ts.Bin(OpAdd, ex.ts.Bin(OpMul, us, K(64, 1_000_000_000)), n)
	})
	e.reg("time.Unix", func(ex *Exec, fr *frame, args []Value) Value {
		sec := args[0].(*Term)
		nsec := args[1].(*Term)
		if !nsec.IsConst() || nsec.C >= 1_000_000_000 {
			ex.unsupported("time.Unix with symbolic or unnormalised nanoseconds")
		}
		return ex.mkTime(ex.ts.Bin(OpAdd, sec, K(64, uint64(timeUnixToInternal))), K(64, nsec.C))
	})
	e.reg("time.UnixMilli", func(ex *Exec, fr *frame, args []Value) Value {
		ms := args[0].(*Term)
		if ms.IsConst() {
			v := sext(ms.C, 64)
			s, r := v/1000, v%1000
			if r < 0 {
				r += 1000
				s--
			}
			return ex.mkTime(K(64, uint64(s+timeUnixToInternal)), K(64, uint64(r*1_000_000)))
		}
		ex.unsupported("time.UnixMilli with symbolic argument")
		return nil
	})
	e.reg("(time.Time).Format", func(ex *Exec, fr *frame, args []Value) Value { return symMarker })
	e.reg("(time.Time).String", func(ex *Exec, fr *frame, args []Value) Value { return symMarker })
	e.reg("(time.Duration).String", func(ex *Exec, fr *frame, args []Value) Value {
		if t := args[0].(*Term); t.IsConst() {
			return fmt.Sprintf("%dns", sext(t.C, 64))
		}
		return symMarker
	})
	e.reg("time.Sleep", func(ex *Exec, fr *frame, args []Value) Value { return nil })
	// timers and tickers: a channel that is immediately ready
	e.reg("time.After", func(ex *Exec, fr *frame, args []Value) Value {
		ch := &Chan{cap: 1, elemT: ex.eng.namedType("time", "Time")}
		ch.buf = append(ch.buf, ex.clockNow())
		return ch
	})
	e.reg("time.NewTimer", func(ex *Exec, fr *frame, args []Value) Value {
		tt := deref(fr.fn.Signature.Results().At(0).Type())
		var cell Value = zero(tt)
		st := cell.(structure)
		ch := &Chan{cap: 1, elemT: ex.eng.namedType("time", "Time")}
		ch.buf = append(ch.buf, ex.clockNow())
		st[0] = ch
		return &cell
	})
	e.reg("time.NewTicker", func(ex *Exec, fr *frame, args []Value) Value {
		tt := deref(fr.fn.Signature.Results().At(0).Type())
		var cell Value = zero(tt)
		st := cell.(structure)
		ch := &Chan{cap: 1, elemT: ex.eng.namedType("time", "Time"), ticker: true}
		st[0] = ch
		return &cell
	})
	e.reg("(*time.Timer).Stop", func(ex *Exec, fr *frame, args []Value) Value { return True })
	e.reg("(*time.Timer).Reset", func(ex *Exec, fr *frame, args []Value) Value { return True })
	e.reg(vxPath+".OnTick", func(ex *Exec, fr *frame, args []Value) Value {
		ex.ghost["ontick"] = &onTick{n: int(ex.concreteInt(args[0], "OnTick n", true)), f: args[1]}
		return nil
	})
	e.reg("(*time.Ticker).Stop", func(ex *Exec, fr *frame, args []Value) Value { return nil })
	e.reg("(*time.Ticker).Reset", func(ex *Exec, fr *frame, args []Value) Value { return nil })
	e.reg("time.AfterFunc", func(ex *Exec, fr *frame, args []Value) Value {
		tt := deref(fr.fn.Signature.Results().At(0).Type())
		var cell Value = zero(tt)
		return &cell
	})
}

// ---- misc ----

func registerMisc(e *Engine) {
	e.reg("runtime.SetFinalizer", func(ex *Exec, fr *frame, args []Value) Value { return nil })
	e.reg("runtime.KeepAlive", func(ex *Exec, fr *frame, args []Value) Value { return nil })
	e.reg("runtime.Gosched", func(ex *Exec, fr *frame, args []Value) Value { return nil })
	e.reg("runtime.GC", func(ex *Exec, fr *frame, args []Value) Value { return nil })
	e.reg("os.Getenv", func(ex *Exec, fr *frame, args []Value) Value { return "" })
	e.reg("os.Getpid", func(ex *Exec, fr *frame, args []Value) Value { return K(64, 4242) })
	e.reg("os.Hostname", func(ex *Exec, fr *frame, args []Value) Value { return tuple{"host", iface{}} })
	e.reg("strings.Contains", func(ex *Exec, fr *frame, args []Value) Value {
		return KBool(strings.Contains(argStr(ex, args[0]), argStr(ex, args[1])))
	})
	e.reg("strings.HasPrefix", func(ex *Exec, fr *frame, args []Value) Value {
		return KBool(strings.HasPrefix(argStr(ex, args[0]), argStr(ex, args[1])))
	})
	e.reg("strings.HasSuffix", func(ex *Exec, fr *frame, args []Value) Value {
		return KBool(strings.HasSuffix(argStr(ex, args[0]), argStr(ex, args[1])))
	})
	e.reg("strings.Index", func(ex *Exec, fr *frame, args []Value) Value {
		return K(64, uint64(int64(strings.Index(argStr(ex, args[0]), argStr(ex, args[1])))))
	})
	e.reg("strings.TrimSuffix", func(ex *Exec, fr *frame, args []Value) Value {
		return strings.TrimSuffix(argStr(ex, args[0]), argStr(ex, args[1]))
	})
	e.reg("strings.TrimPrefix", func(ex *Exec, fr *frame, args []Value) Value {
		return strings.TrimPrefix(argStr(ex, args[0]), argStr(ex, args[1]))
	})
	e.reg("strings.ToLower", func(ex *Exec, fr *frame, args []Value) Value { return strings.ToLower(argStr(ex, args[0])) })
	e.reg("strings.ToUpper", func(ex *Exec, fr *frame, args []Value) Value { return strings.ToUpper(argStr(ex, args[0])) })
	e.reg("strings.TrimSpace", func(ex *Exec, fr *frame, args []Value) Value { return strings.TrimSpace(argStr(ex, args[0])) })
	e.reg("strings.EqualFold", func(ex *Exec, fr *frame, args []Value) Value {
		return KBool(strings.EqualFold(argStr(ex, args[0]), argStr(ex, args[1])))
	})
	e.reg("internal/bytealg.IndexByteString", func(ex *Exec, fr *frame, args []Value) Value {
		c := args[1].(*Term)
		if !c.IsConst() {
			ex.unsupported("IndexByteString with symbolic byte")
		}
		return K(64, uint64(int64(strings.IndexByte(argStr(ex, args[0]), byte(c.C)))))
	})
	e.reg("internal/bytealg.IndexString", func(ex *Exec, fr *frame, args []Value) Value {
		return K(64, uint64(int64(strings.Index(argStr(ex, args[0]), argStr(ex, args[1])))))
	})
	e.reg("internal/bytealg.CountString", func(ex *Exec, fr *frame, args []Value) Value {
		c := args[1].(*Term)
		return K(64, uint64(strings.Count(argStr(ex, args[0]), string(rune(c.C)))))
	})
	e.reg("internal/stringslite.Index", func(ex *Exec, fr *frame, args []Value) Value {
		return K(64, uint64(int64(strings.Index(argStr(ex, args[0]), argStr(ex, args[1])))))
	})
	e.reg("internal/stringslite.IndexByte", func(ex *Exec, fr *frame, args []Value) Value {
		c := args[1].(*Term)
		return K(64, uint64(int64(strings.IndexByte(argStr(ex, args[0]), byte(c.C)))))
	})
}
