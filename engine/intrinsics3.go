package main

// Pure string / path / strconv helpers evaluated natively on concrete operands.

import (
	"fmt"
	"path"
	"path/filepath"
	"strconv"
	"strings"
)

func strSlice(ex *Exec, v Value) []string {
	if v == nil {
		return nil
	}
	sl := v.([]Value)
	out := make([]string, len(sl))
	for i, e := range sl {
		out[i] = argStr(ex, e)
	}
	return out
}

func toStrSlice(a []string) Value {
	if a == nil {
		return []Value(nil)
	}
	out := make([]Value, len(a))
	for i, s := range a {
		out[i] = s
	}
	return out
}

func constInt(ex *Exec, v Value, what string) int64 {
	t := v.(*Term)
	if !t.IsConst() {
		ex.unsupported("%s: symbolic integer operand", what)
	}
	return sext(t.C, t.W)
}

type sbState struct{ b []Value } // strings.Builder / bytes.Buffer content as byte terms

func (ex *Exec) builderOf(p Value) *sbState {
	m, _ := ex.ghost["sb"].(map[*Value]*sbState)
	if m == nil {
		m = map[*Value]*sbState{}
		ex.ghost["sb"] = m
	}
	ptr := p.(*Value)
	st := m[ptr]
	if st == nil {
		st = &sbState{}
		m[ptr] = st
	}
	return st
}

func bytesOfString(s string) []Value {
	out := make([]Value, len(s))
	for i := 0; i < len(s); i++ {
		out[i] = K(8, uint64(s[i]))
	}
	return out
}

func (ex *Exec) stringOfBytes(b []Value) string {
	out := make([]byte, len(b))
	for i, e := range b {
		t := e.(*Term)
		if !t.IsConst() {
			ex.unsupported("string of symbolic bytes")
		}
		out[i] = byte(t.C)
	}
	return string(out)
}

func init() {
	extraIntrinsics = append(extraIntrinsics, registerStrings)
}

func registerStrings(e *Engine) {
	s1 := func(name string, f func(string) string) {
		e.reg(name, func(ex *Exec, fr *frame, args []Value) Value { return f(argStr(ex, args[0])) })
	}
	s2 := func(name string, f func(string, string) string) {
		e.reg(name, func(ex *Exec, fr *frame, args []Value) Value { return f(argStr(ex, args[0]), argStr(ex, args[1])) })
	}
	s2i := func(name string, f func(string, string) int) {
		e.reg(name, func(ex *Exec, fr *frame, args []Value) Value {
			return K(64, uint64(int64(f(argStr(ex, args[0]), argStr(ex, args[1])))))
		})
	}
	e.reg("strings.Join", func(ex *Exec, fr *frame, args []Value) Value {
		return strings.Join(strSlice(ex, args[0]), argStr(ex, args[1]))
	})
	e.reg("strings.Split", func(ex *Exec, fr *frame, args []Value) Value {
		return toStrSlice(strings.Split(argStr(ex, args[0]), argStr(ex, args[1])))
	})
	e.reg("strings.SplitN", func(ex *Exec, fr *frame, args []Value) Value {
		return toStrSlice(strings.SplitN(argStr(ex, args[0]), argStr(ex, args[1]), int(constInt(ex, args[2], "SplitN"))))
	})
	e.reg("strings.Fields", func(ex *Exec, fr *frame, args []Value) Value {
		return toStrSlice(strings.Fields(argStr(ex, args[0])))
	})
	e.reg("strings.Repeat", func(ex *Exec, fr *frame, args []Value) Value {
		return strings.Repeat(argStr(ex, args[0]), int(constInt(ex, args[1], "Repeat")))
	})
	e.reg("strings.Replace", func(ex *Exec, fr *frame, args []Value) Value {
		return strings.Replace(argStr(ex, args[0]), argStr(ex, args[1]), argStr(ex, args[2]), int(constInt(ex, args[3], "Replace")))
	})
	e.reg("strings.ReplaceAll", func(ex *Exec, fr *frame, args []Value) Value {
		return strings.ReplaceAll(argStr(ex, args[0]), argStr(ex, args[1]), argStr(ex, args[2]))
	})
	s2("strings.Trim", strings.Trim)
	s2("strings.TrimLeft", strings.TrimLeft)
	s2("strings.TrimRight", strings.TrimRight)
	s2i("strings.LastIndex", strings.LastIndex)
	s2i("strings.Count", strings.Count)
	s2i("strings.Compare", strings.Compare)
	e.reg("strings.IndexByte", func(ex *Exec, fr *frame, args []Value) Value {
		return K(64, uint64(int64(strings.IndexByte(argStr(ex, args[0]), byte(constInt(ex, args[1], "IndexByte"))))))
	})
	e.reg("strings.LastIndexByte", func(ex *Exec, fr *frame, args []Value) Value {
		return K(64, uint64(int64(strings.LastIndexByte(argStr(ex, args[0]), byte(constInt(ex, args[1], "LastIndexByte"))))))
	})
	e.reg("strings.Cut", func(ex *Exec, fr *frame, args []Value) Value {
		a, b, ok := strings.Cut(argStr(ex, args[0]), argStr(ex, args[1]))
		return tuple{a, b, KBool(ok)}
	})
	e.reg("strings.CutPrefix", func(ex *Exec, fr *frame, args []Value) Value {
		a, ok := strings.CutPrefix(argStr(ex, args[0]), argStr(ex, args[1]))
		return tuple{a, KBool(ok)}
	})
	e.reg("strings.CutSuffix", func(ex *Exec, fr *frame, args []Value) Value {
		a, ok := strings.CutSuffix(argStr(ex, args[0]), argStr(ex, args[1]))
		return tuple{a, KBool(ok)}
	})
	// path and filepath (unix)
	s1("path/filepath.Base", filepath.Base)
	s1("path/filepath.Dir", filepath.Dir)
	s1("path/filepath.Clean", filepath.Clean)
	s1("path/filepath.Ext", filepath.Ext)
	s1("path/filepath.ToSlash", filepath.ToSlash)
	s1("path/filepath.FromSlash", filepath.FromSlash)
	s1("path.Base", path.Base)
	s1("path.Dir", path.Dir)
	s1("path.Clean", path.Clean)
	s1("path.Ext", path.Ext)
	e.reg("path/filepath.Join", func(ex *Exec, fr *frame, args []Value) Value { return filepath.Join(strSlice(ex, args[0])...) })
	e.reg("path.Join", func(ex *Exec, fr *frame, args []Value) Value { return path.Join(strSlice(ex, args[0])...) })
	e.reg("path/filepath.Split", func(ex *Exec, fr *frame, args []Value) Value {
		d, f := filepath.Split(argStr(ex, args[0]))
		return tuple{d, f}
	})
	e.reg("path.Split", func(ex *Exec, fr *frame, args []Value) Value {
		d, f := path.Split(argStr(ex, args[0]))
		return tuple{d, f}
	})
	e.reg("path/filepath.IsAbs", func(ex *Exec, fr *frame, args []Value) Value { return KBool(filepath.IsAbs(argStr(ex, args[0]))) })
	e.reg("path/filepath.Abs", func(ex *Exec, fr *frame, args []Value) Value {
		p := argStr(ex, args[0])
		if !filepath.IsAbs(p) {
			p = filepath.Join("/cwd", p)
		}
		return tuple{filepath.Clean(p), iface{}}
	})
	e.reg("path/filepath.Rel", func(ex *Exec, fr *frame, args []Value) Value {
		r, err := filepath.Rel(argStr(ex, args[0]), argStr(ex, args[1]))
		if err != nil {
			return tuple{"", ex.newErr(err.Error())}
		}
		return tuple{r, iface{}}
	})
	e.reg("path/filepath.Match", func(ex *Exec, fr *frame, args []Value) Value {
		ok, err := filepath.Match(argStr(ex, args[0]), argStr(ex, args[1]))
		if err != nil {
			return tuple{False, ex.newErr(err.Error())}
		}
		return tuple{KBool(ok), iface{}}
	})
	// strconv
	e.reg("strconv.Itoa", func(ex *Exec, fr *frame, args []Value) Value {
		t := args[0].(*Term)
		if !t.IsConst() {
			return symMarker
		}
		return strconv.FormatInt(sext(t.C, t.W), 10)
	})
	e.reg("strconv.FormatInt", func(ex *Exec, fr *frame, args []Value) Value {
		t := args[0].(*Term)
		if !t.IsConst() {
			return symMarker
		}
		return strconv.FormatInt(sext(t.C, t.W), int(constInt(ex, args[1], "FormatInt base")))
	})
	e.reg("strconv.FormatUint", func(ex *Exec, fr *frame, args []Value) Value {
		t := args[0].(*Term)
		if !t.IsConst() {
			return symMarker
		}
		return strconv.FormatUint(t.C, int(constInt(ex, args[1], "FormatUint base")))
	})
	e.reg("strconv.Quote", func(ex *Exec, fr *frame, args []Value) Value { return strconv.Quote(argStr(ex, args[0])) })
	num := func(ex *Exec, s string) {
		if strings.Contains(s, symMarker) {
			ex.unsupported("parsing a number out of a string built from a symbolic value")
		}
	}
	e.reg("strconv.Atoi", func(ex *Exec, fr *frame, args []Value) Value {
		s := argStr(ex, args[0])
		num(ex, s)
		v, err := strconv.Atoi(s)
		if err != nil {
			return tuple{K(64, 0), ex.newErr(err.Error())}
		}
		return tuple{K(64, uint64(int64(v))), iface{}}
	})
	e.reg("strconv.ParseInt", func(ex *Exec, fr *frame, args []Value) Value {
		s := argStr(ex, args[0])
		num(ex, s)
		v, err := strconv.ParseInt(s, int(constInt(ex, args[1], "base")), int(constInt(ex, args[2], "bits")))
		if err != nil {
			return tuple{K(64, uint64(v)), ex.newErr(err.Error())}
		}
		return tuple{K(64, uint64(v)), iface{}}
	})
	e.reg("strconv.ParseUint", func(ex *Exec, fr *frame, args []Value) Value {
		s := argStr(ex, args[0])
		num(ex, s)
		v, err := strconv.ParseUint(s, int(constInt(ex, args[1], "base")), int(constInt(ex, args[2], "bits")))
		if err != nil {
			return tuple{K(64, v), ex.newErr(err.Error())}
		}
		return tuple{K(64, v), iface{}}
	})
	e.reg("strconv.ParseBool", func(ex *Exec, fr *frame, args []Value) Value {
		v, err := strconv.ParseBool(argStr(ex, args[0]))
		if err != nil {
			return tuple{False, ex.newErr(err.Error())}
		}
		return tuple{KBool(v), iface{}}
	})
	// strings.Builder
	e.reg("(*strings.Builder).WriteString", func(ex *Exec, fr *frame, args []Value) Value {
		st := ex.builderOf(args[0])
		s := argStr(ex, args[1])
		st.b = append(st.b, bytesOfString(s)...)
		return tuple{K(64, uint64(len(s))), iface{}}
	})
	e.reg("(*strings.Builder).WriteByte", func(ex *Exec, fr *frame, args []Value) Value {
		st := ex.builderOf(args[0])
		st.b = append(st.b, args[1])
		return iface{}
	})
	e.reg("(*strings.Builder).WriteRune", func(ex *Exec, fr *frame, args []Value) Value {
		st := ex.builderOf(args[0])
		s := string(rune(constInt(ex, args[1], "WriteRune")))
		st.b = append(st.b, bytesOfString(s)...)
		return tuple{K(64, uint64(len(s))), iface{}}
	})
	e.reg("(*strings.Builder).Write", func(ex *Exec, fr *frame, args []Value) Value {
		st := ex.builderOf(args[0])
		p := args[1].([]Value)
		st.b = append(st.b, p...)
		return tuple{K(64, uint64(len(p))), iface{}}
	})
	e.reg("(*strings.Builder).String", func(ex *Exec, fr *frame, args []Value) Value {
		return ex.stringOfBytes(ex.builderOf(args[0]).b)
	})
	e.reg("(*strings.Builder).Len", func(ex *Exec, fr *frame, args []Value) Value {
		return K(64, uint64(len(ex.builderOf(args[0]).b)))
	})
	e.reg("(*strings.Builder).Cap", func(ex *Exec, fr *frame, args []Value) Value {
		return K(64, uint64(cap(ex.builderOf(args[0]).b)))
	})
	e.reg("(*strings.Builder).Grow", func(ex *Exec, fr *frame, args []Value) Value { return nil })
	e.reg("(*strings.Builder).Reset", func(ex *Exec, fr *frame, args []Value) Value {
		ex.builderOf(args[0]).b = nil
		return nil
	})
}

var _ = fmt.Sprintf

func init() {
	extraIntrinsics = append(extraIntrinsics, func(e *Engine) {
		// vx.Range(name, lo, hi): fresh input constrained to [lo,hi]; no feasibility query
		// is needed because a fresh variable can always take a value in a non-empty range.
		e.reg(vxPath+".Range", func(ex *Exec, fr *frame, args []Value) Value {
			lo := args[1].(*Term)
			hi := args[2].(*Term)
			if !lo.IsConst() || !hi.IsConst() || lo.C > hi.C {
				ex.unsupported("vx.Range needs concrete lo <= hi")
			}
			// the variable is only as wide as the range needs (zero-extended): products
			// and comparisons built on it stay small for the solver
			nb := 1
			for nb < 64 && hi.C>>uint(nb) != 0 {
				nb++
			}
			v := ex.ts.ZExt(ex.NewInput(argStr(ex, args[0]), nb), 64)
			c := True
			if lo.C > 0 {
				c = ex.ts.Cmp(OpULe, lo, v)
			}
			if hi.C != (uint64(1)<<uint(nb))-1 {
				c = ex.ts.And(c, ex.ts.Cmp(OpULe, v, hi))
			}
			ex.assume(c)
			return v
		})
		e.reg("runtime/debug.ReadBuildInfo", func(ex *Exec, fr *frame, args []Value) Value {
			return tuple{(*Value)(nil), False}
		})
	})
}
