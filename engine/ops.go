package main

import (
	"fmt"
	"go/token"
	"go/types"
	"math"
	"unicode/utf8"

	"golang.org/x/tools/go/ssa"
)

func (ex *Exec) unop(fr *frame, instr *ssa.UnOp, x Value) Value {
	switch instr.Op {
	case token.MUL: // load
		return ex.load(x)
	case token.ARROW: // receive
		ch := x.(*Chan)
		v, ok := ex.chanRecv(ch, true)
		if instr.CommaOk {
			return tuple{v, KBool(ok)}
		}
		return v
	case token.SUB:
		switch x := x.(type) {
		case *Term:
			return ex.ts.Un(OpNeg, x)
		case float64:
			return -x
		}
	case token.NOT:
		return ex.ts.Not(x.(*Term))
	case token.XOR:
		return ex.ts.Un(OpNot, x.(*Term))
	}
	panic(fmt.Sprintf("invalid unary op %s %T", instr.Op, x))
}

func (ex *Exec) binop(op token.Token, xt, yt types.Type, x, y Value) Value {
	switch op {
	case token.EQL:
		return ex.eqVal(x, y)
	case token.NEQ:
		return ex.ts.Not(ex.eqVal(x, y))
	}
	switch x := x.(type) {
	case *Term:
		yv := y.(*Term)
		w, signed, _ := typeWidth(xt)
		if w == 0 && x.W != 0 {
			// untyped const contexts
			w = x.W
		}
		switch op {
		case token.ADD:
			return ex.ts.Bin(OpAdd, x, yv)
		case token.SUB:
			return ex.ts.Bin(OpSub, x, yv)
		case token.MUL:
			return ex.ts.Bin(OpMul, x, yv)
		case token.QUO, token.REM:
			if yv.IsConst() {
				if yv.C == 0 {
					ex.targetPanicStr("integer divide by zero")
				}
			} else if ex.Branch(ex.ts.Eq(yv, K(yv.W, 0)), "div by zero") {
				ex.targetPanicStr("integer divide by zero")
			}
			if op == token.QUO {
				if signed {
					return ex.ts.Bin(OpSDiv, x, yv)
				}
				return ex.ts.Bin(OpUDiv, x, yv)
			}
			if signed {
				return ex.ts.Bin(OpSRem, x, yv)
			}
			return ex.ts.Bin(OpURem, x, yv)
		case token.AND:
			return ex.ts.Bin(OpAnd, x, yv)
		case token.OR:
			return ex.ts.Bin(OpOr, x, yv)
		case token.XOR:
			return ex.ts.Bin(OpXor, x, yv)
		case token.AND_NOT:
			return ex.ts.Bin(OpAnd, x, ex.ts.Un(OpNot, yv))
		case token.SHL, token.SHR:
			_, ysigned, _ := typeWidth(yt)
			if ysigned {
				neg := ex.ts.Cmp(OpSLt, yv, K(yv.W, 0))
				if ex.Branch(neg, "negative shift") {
					ex.targetPanicStr("negative shift amount")
				}
			}
			cnt := ex.shiftCount(yv, x.W)
			if op == token.SHL {
				return ex.ts.Bin(OpShl, x, cnt)
			}
			if signed {
				return ex.ts.Bin(OpAShr, x, cnt)
			}
			return ex.ts.Bin(OpLShr, x, cnt)
		case token.LSS:
			if signed {
				return ex.ts.Cmp(OpSLt, x, yv)
			}
			return ex.ts.Cmp(OpULt, x, yv)
		case token.LEQ:
			if signed {
				return ex.ts.Cmp(OpSLe, x, yv)
			}
			return ex.ts.Cmp(OpULe, x, yv)
		case token.GTR:
			if signed {
				return ex.ts.Cmp(OpSLt, yv, x)
			}
			return ex.ts.Cmp(OpULt, yv, x)
		case token.GEQ:
			if signed {
				return ex.ts.Cmp(OpSLe, yv, x)
			}
			return ex.ts.Cmp(OpULe, yv, x)
		}
	case string:
		ys := y.(string)
		switch op {
		case token.ADD:
			return x + ys
		case token.LSS:
			return KBool(x < ys)
		case token.LEQ:
			return KBool(x <= ys)
		case token.GTR:
			return KBool(x > ys)
		case token.GEQ:
			return KBool(x >= ys)
		}
	case float64:
		yf := y.(float64)
		f32 := false
		if b, ok := xt.Underlying().(*types.Basic); ok && b.Kind() == types.Float32 {
			f32 = true
		}
		rnd := func(f float64) Value {
			if f32 {
				return float64(float32(f))
			}
			return f
		}
		switch op {
		case token.ADD:
			return rnd(x + yf)
		case token.SUB:
			return rnd(x - yf)
		case token.MUL:
			return rnd(x * yf)
		case token.QUO:
			return rnd(x / yf)
		case token.LSS:
			return KBool(x < yf)
		case token.LEQ:
			return KBool(x <= yf)
		case token.GTR:
			return KBool(x > yf)
		case token.GEQ:
			return KBool(x >= yf)
		}
	}
	panic(fmt.Sprintf("invalid binary op: %T %s %T", x, op, y))
}

// shiftCount converts a shift count to width w with Go semantics (counts >= w saturate).
func (ex *Exec) shiftCount(c *Term, w int) *Term {
	switch {
	case c.W == w:
		return c
	case c.W < w:
		return ex.ts.ZExt(c, w)
	default:
		big := ex.ts.Cmp(OpULe, K(c.W, uint64(w)), c)
		return ex.ts.Ite(big, K(w, uint64(w)), ex.ts.Extract(c, w-1, 0))
	}
}

func (ex *Exec) conv(tDst, tSrc types.Type, x Value) Value {
	ud := tDst.Underlying()
	us := tSrc.Underlying()
	// named/pointer/struct/func conversions: representation unchanged
	switch ud.(type) {
	case *types.Pointer, *types.Struct, *types.Signature, *types.Map, *types.Chan, *types.Interface, *types.Array:
		if b, ok := us.(*types.Basic); ok && b.Kind() == types.UnsafePointer {
			ex.unsupported("conversion from unsafe.Pointer")
		}
		return x
	}
	if db, ok := ud.(*types.Basic); ok && db.Kind() == types.UnsafePointer {
		return unsafePtr{}
	}
	// slice <-> string
	if ds, ok := ud.(*types.Slice); ok {
		if s, ok := x.(string); ok {
			eb := ds.Elem().Underlying().(*types.Basic)
			if eb.Kind() == types.Uint8 {
				out := make([]Value, len(s))
				for i := 0; i < len(s); i++ {
					out[i] = K(8, uint64(s[i]))
				}
				return out
			}
			// []rune
			var out []Value
			for _, r := range s {
				out = append(out, K(32, uint64(r)))
			}
			if out == nil {
				out = []Value{}
			}
			return out
		}
		return x // slice type to slice type
	}
	if isString(ud) {
		switch x := x.(type) {
		case string:
			return x
		case []Value:
			// []byte or []rune -> string: contents must be concrete
			es := us.(*types.Slice).Elem().Underlying().(*types.Basic)
			if es.Kind() == types.Uint8 {
				b := make([]byte, len(x))
				for i, e := range x {
					t := e.(*Term)
					if !t.IsConst() {
						return ex.symString(x)
					}
					b[i] = byte(t.C)
				}
				return string(b)
			}
			r := make([]rune, len(x))
			for i, e := range x {
				t := e.(*Term)
				if !t.IsConst() {
					ex.unsupported("string([]rune) of symbolic runes")
				}
				r[i] = rune(sext(t.C, 32))
			}
			return string(r)
		case *Term:
			if !x.IsConst() {
				ex.unsupported("string(int) of symbolic value")
			}
			_, signed, _ := typeWidth(us)
			v := int64(x.C)
			if signed {
				v = sext(x.C, x.W)
			}
			if v < 0 || v > utf8.MaxRune {
				return "�"
			}
			return string(rune(v))
		}
	}
	// numeric
	if dw, _, ok := typeWidth(ud); ok {
		switch x := x.(type) {
		case *Term:
			_, ssigned, _ := typeWidth(us)
			if dw == 0 {
				return x
			}
			return ex.ts.Resize(x, dw, ssigned)
		case float64:
			_, dsigned, _ := typeWidth(ud)
			if dsigned {
				return K(dw, uint64(int64(x)))
			}
			if x < 0 {
				return K(dw, uint64(int64(x)))
			}
			return K(dw, uint64(x))
		}
	}
	if isFloat(ud) {
		f32 := ud.(*types.Basic).Kind() == types.Float32
		var f float64
		switch x := x.(type) {
		case float64:
			f = x
		case *Term:
			if !x.IsConst() {
				// Floats only feed metrics and log lines in the targets; a symbolic
				// integer becomes NaN (every comparison with it is false, so a decision
				// that did depend on it would show up as a mismatch in native validation).
				return math.NaN()
			}
			_, ssigned, _ := typeWidth(us)
			if ssigned {
				f = float64(sext(x.C, x.W))
			} else {
				f = float64(x.C)
			}
		}
		if f32 {
			f = float64(float32(f))
		}
		return f
	}
	panic(fmt.Sprintf("unsupported conversion: %s -> %s, dynamic type %T", tSrc, tDst, x))
}

// symString handles string(bytes) where bytes are symbolic: unsupported unless the
// engine is allowed to treat the string as opaque (never needed so far).
func (ex *Exec) symString(x []Value) Value {
	ex.unsupported("string([]byte) of symbolic bytes")
	return ""
}

func (ex *Exec) slice(instr *ssa.Slice, x, lo, hi, max Value) Value {
	var Len, Cap int
	switch x := x.(type) {
	case string:
		Len = len(x)
	case []Value:
		Len = len(x)
		Cap = cap(x)
	case *Value:
		if x == nil {
			ex.targetPanicStr("nil pointer dereference (slice of array pointer)")
		}
		a := (*x).(array)
		Len = len(a)
		Cap = cap(a)
	}
	l := 0
	if lo != nil {
		l = int(ex.concreteInt(lo, "slice low", true))
	}
	h := Len
	if hi != nil {
		h = int(ex.concreteInt(hi, "slice high", true))
	}
	var m int
	if max != nil {
		m = int(ex.concreteInt(max, "slice max", true))
	}
	switch x := x.(type) {
	case string:
		if l < 0 || h < l || h > Len {
			ex.targetPanicStr(fmt.Sprintf("slice bounds out of range [%d:%d] with length %d", l, h, Len))
		}
		return x[l:h]
	case []Value:
		if max == nil {
			m = Cap
		}
		if l < 0 || h < l || m < h || m > Cap {
			ex.targetPanicStr(fmt.Sprintf("slice bounds out of range [%d:%d:%d] with capacity %d", l, h, m, Cap))
		}
		if x == nil {
			return []Value(nil)
		}
		return x[l:h:m]
	case *Value:
		a := (*x).(array)
		if max == nil {
			m = Cap
		}
		if l < 0 || h < l || m < h || m > Cap {
			ex.targetPanicStr(fmt.Sprintf("slice bounds out of range [%d:%d:%d] with capacity %d", l, h, m, Cap))
		}
		return []Value(a)[l:h:m]
	}
	panic(fmt.Sprintf("slice: unexpected X type: %T", x))
}

func (ex *Exec) lookup(instr *ssa.Lookup, x, idx Value) Value {
	switch x := x.(type) {
	case string:
		i := ex.indexCheck(idx.(*Term), len(x), isSignedType(instr.Index.Type()))
		return K(8, uint64(x[i]))
	case *Map:
		var v Value
		ok := false
		if e := ex.mapFind(x, idx); e != nil {
			v, ok = copyVal(e.v), true
		} else {
			v = zero(instr.X.Type().Underlying().(*types.Map).Elem())
		}
		if instr.CommaOk {
			return tuple{v, KBool(ok)}
		}
		return v
	}
	panic(fmt.Sprintf("unexpected x type in Lookup: %T", x))
}

func (ex *Exec) typeAssert(instr *ssa.TypeAssert, itf iface) Value {
	var v Value
	ok := false
	if idst, isIface := instr.AssertedType.Underlying().(*types.Interface); isIface {
		if itf.t != nil && ex.implements(itf, idst) {
			v, ok = itf, true
		}
	} else if itf.t != nil && types.Identical(itf.t, instr.AssertedType) {
		v, ok = copyVal(itf.v), true
	}
	if !ok {
		if !instr.CommaOk {
			ex.targetPanicStr(fmt.Sprintf("interface conversion: %v is not %v", itf.t, instr.AssertedType))
		}
		if _, isIface := instr.AssertedType.Underlying().(*types.Interface); isIface {
			v = iface{}
		} else {
			v = zero(instr.AssertedType)
		}
	}
	if instr.CommaOk {
		return tuple{v, KBool(ok)}
	}
	return v
}

func (ex *Exec) implements(itf iface, idst *types.Interface) bool {
	if ne, ok := itf.v.(nativeMethods); ok {
		_ = ne
		// engine-side objects implement error (and Unwrap); accept interfaces whose
		// methods are all in that set.
		for i := 0; i < idst.NumMethods(); i++ {
			switch idst.Method(i).Name() {
			case "Error", "Unwrap", "Is":
			default:
				return false
			}
		}
		return true
	}
	return types.Implements(itf.t, idst)
}

// ---- iteration ----

type iter interface {
	next(ex *Exec) tuple
}

type stringIter struct {
	s   string
	pos int
}

func (it *stringIter) next(ex *Exec) tuple {
	if it.pos >= len(it.s) {
		return tuple{False, K(64, 0), K(32, 0)}
	}
	r, n := utf8.DecodeRuneInString(it.s[it.pos:])
	i := it.pos
	it.pos += n
	return tuple{True, K(64, uint64(i)), K(32, uint64(r))}
}

type mapIter struct {
	m    *Map
	snap []*mapEntry
	i    int
}

func (it *mapIter) next(ex *Exec) tuple {
	for it.i < len(it.snap) {
		e := it.snap[it.i]
		it.i++
		// skip entries deleted during iteration
		live := false
		for _, x := range it.m.entries {
			if x == e {
				live = true
				break
			}
		}
		if live {
			return tuple{True, e.k, copyVal(e.v)}
		}
	}
	return tuple{False, nil, nil}
}

func (ex *Exec) rangeIter(instr *ssa.Range, x Value) iter {
	switch x := x.(type) {
	case *Map:
		if x == nil {
			return &mapIter{m: &Map{}}
		}
		return &mapIter{m: x, snap: append([]*mapEntry(nil), x.entries...)}
	case string:
		return &stringIter{s: x}
	}
	panic(fmt.Sprintf("cannot range over %T", x))
}

// ---- builtins ----

func (ex *Exec) callBuiltin(caller *frame, fn *ssa.Builtin, args []Value) Value {
	switch fn.Name() {
	case "append":
		if len(args) == 1 {
			return args[0]
		}
		if s, ok := args[1].(string); ok {
			args[1] = ex.conv(types.NewSlice(types.Typ[types.Uint8]), types.Typ[types.String], s)
		}
		a := args[0].([]Value)
		b := args[1].([]Value)
		if len(b) == 0 {
			return a
		}
		// Go growth: new backing iff len+n > cap. Elements are copied by value.
		if len(a)+len(b) <= cap(a) {
			out := a[:len(a)+len(b)]
			for i, e := range b {
				out[len(a)+i] = copyVal(e)
			}
			return out
		}
		newCap := growCap(cap(a), len(a)+len(b))
		out := make([]Value, len(a)+len(b), newCap)
		copy(out, a)
		for i, e := range b {
			out[len(a)+i] = copyVal(e)
		}
		// fill spare capacity with zero values of the element type lazily: use nil
		// markers replaced on reslice; simpler: zero now when type is known.
		if et := sliceElemType(fn, args); et != nil {
			z := zero(et)
			full := out[:newCap]
			for i := len(out); i < newCap; i++ {
				full[i] = copyVal(z)
			}
		}
		return out

	case "copy":
		if s, ok := args[1].(string); ok {
			args[1] = ex.conv(types.NewSlice(types.Typ[types.Uint8]), types.Typ[types.String], s)
		}
		dst := args[0].([]Value)
		src := args[1].([]Value)
		n := len(src)
		if len(dst) < n {
			n = len(dst)
		}
		// handle overlap like memmove
		tmp := make([]Value, n)
		for i := 0; i < n; i++ {
			tmp[i] = copyVal(src[i])
		}
		copy(dst, tmp)
		return K(64, uint64(n))

	case "close":
		ch := args[0].(*Chan)
		if ch == nil {
			ex.targetPanicStr("close of nil channel")
		}
		if ch.closed {
			ex.targetPanicStr("close of closed channel")
		}
		ch.closed = true
		return nil

	case "delete":
		ex.mapDelete(args[0].(*Map), args[1])
		return nil

	case "print", "println":
		return nil

	case "len":
		switch x := args[0].(type) {
		case string:
			return K(64, uint64(len(x)))
		case array:
			return K(64, uint64(len(x)))
		case *Value:
			return K(64, uint64(len((*x).(array))))
		case []Value:
			return K(64, uint64(len(x)))
		case *Map:
			if x == nil {
				return K(64, 0)
			}
			return K(64, uint64(len(x.entries)))
		case *Chan:
			if x == nil {
				return K(64, 0)
			}
			return K(64, uint64(len(x.buf)))
		}
		panic(fmt.Sprintf("len: illegal operand: %T", args[0]))

	case "cap":
		switch x := args[0].(type) {
		case array:
			return K(64, uint64(cap(x)))
		case *Value:
			return K(64, uint64(cap((*x).(array))))
		case []Value:
			return K(64, uint64(cap(x)))
		case *Chan:
			if x == nil {
				return K(64, 0)
			}
			return K(64, uint64(x.cap))
		}
		panic(fmt.Sprintf("cap: illegal operand: %T", args[0]))

	case "min", "max":
		sig := fn.Type().(*types.Signature)
		t := sig.Params().At(0).Type()
		res := args[0]
		for _, a := range args[1:] {
			switch r := res.(type) {
			case *Term:
				_, signed, _ := typeWidth(t)
				op := OpULt
				if signed {
					op = OpSLt
				}
				var c *Term
				if fn.Name() == "min" {
					c = ex.ts.Cmp(op, a.(*Term), r)
				} else {
					c = ex.ts.Cmp(op, r, a.(*Term))
				}
				res = ex.ts.Ite(c, a.(*Term), r)
			case string:
				if (fn.Name() == "min") == (a.(string) < r) {
					res = a
				}
			case float64:
				if fn.Name() == "min" {
					res = math.Min(r, a.(float64))
				} else {
					res = math.Max(r, a.(float64))
				}
			}
		}
		return res

	case "clear":
		switch x := args[0].(type) {
		case *Map:
			if x != nil {
				x.entries = nil
				x.reindex()
			}
		case []Value:
			// zero elements: need the element type
			sig := fn.Type().(*types.Signature)
			et := sig.Params().At(0).Type().Underlying().(*types.Slice).Elem()
			for i := range x {
				x[i] = zero(et)
			}
		}
		return nil

	case "panic":
		panic(targetPanic{v: args[0], msg: ex.panicString(args[0])})

	case "recover":
		return ex.doRecover(caller)

	case "ssa:wrapnilchk":
		recv := args[0]
		if p, ok := recv.(*Value); ok && p == nil {
			ex.targetPanicStr(fmt.Sprintf("value method %s.%s called using nil pointer", valString(args[1]), valString(args[2])))
		}
		return recv

	case "ssa:deferstack":
		return &[]Value{native{obj: &caller.defers}}[0]
	}
	panic("unknown built-in: " + fn.Name())
}

func sliceElemType(fn *ssa.Builtin, args []Value) types.Type {
	sig, ok := fn.Type().(*types.Signature)
	if !ok || sig.Params().Len() == 0 {
		return nil
	}
	if s, ok := sig.Params().At(0).Type().Underlying().(*types.Slice); ok {
		return s.Elem()
	}
	return nil
}

// growCap mirrors runtime.growslice closely enough for cap-sensitive code
// (exact capacities after growth are implementation-defined in Go; the targets
// do not depend on them).
func growCap(oldCap, needed int) int {
	newCap := oldCap
	doubleCap := newCap + newCap
	if needed > doubleCap {
		return needed
	}
	const threshold = 256
	if oldCap < threshold {
		if doubleCap < needed {
			return needed
		}
		if doubleCap == 0 {
			return needed
		}
		return doubleCap
	}
	for newCap < needed {
		newCap += (newCap + 3*threshold) >> 2
	}
	return newCap
}

// ---- channels (sequential model) ----

func (ex *Exec) chanSend(ch *Chan, v Value) {
	if ch == nil {
		ex.unsupported("send on nil channel blocks forever")
	}
	if ch.closed {
		ex.targetPanicStr("send on closed channel")
	}
	// Sequential model: sends never block (the receiver would run concurrently).
	ch.buf = append(ch.buf, copyVal(v))
}

func (ex *Exec) chanRecv(ch *Chan, blocking bool) (Value, bool) {
	if ch == nil {
		ex.unsupported("receive from nil channel blocks forever")
	}
	if len(ch.buf) > 0 {
		v := ch.buf[0]
		ch.buf = ch.buf[1:]
		return v, true
	}
	if ch.closed {
		return zero(ch.elemT), false
	}
	if ch.ticker {
		// vx.OnTick(n, f): after n ticks of any ticker the harness callback runs once
		// (how a harness ends a loop that is driven by a ticker)
		if ot, ok := ex.ghost["ontick"].(*onTick); ok && !ot.fired {
			ot.seen++
			if ot.seen >= ot.n {
				ot.fired = true
				ex.call(nil, 0, ot.f, nil)
			}
		}
		return ex.clockNow(), true
	}
	if blocking {
		ex.unsupported("blocking receive on empty channel (sequential model)")
	}
	return nil, false
}

func (ex *Exec) selectStmt(fr *frame, instr *ssa.Select) Value {
	// Sequential model: pick the first ready case in source order; otherwise default.
	chosen := -1
	var recv Value
	recvOk := false
	for i, st := range instr.States {
		ch, _ := fr.get(st.Chan).(*Chan)
		if ch == nil {
			continue
		}
		if st.Dir == types.RecvOnly {
			if len(ch.buf) > 0 || ch.closed || ch.ticker {
				recv, recvOk = ex.chanRecv(ch, false)
				chosen = i
				break
			}
		} else {
			ex.chanSend(ch, fr.get(st.Send))
			chosen = i
			break
		}
	}
	if chosen < 0 && instr.Blocking {
		ex.unsupported("blocking select with no ready case (sequential model)")
	}
	r := tuple{K(64, uint64(int64(chosen))), KBool(recvOk)}
	for i, st := range instr.States {
		if st.Dir == types.RecvOnly {
			var v Value
			if i == chosen && recvOk {
				v = recv
			} else {
				v = zero(st.Chan.Type().Underlying().(*types.Chan).Elem())
			}
			r = append(r, v)
		}
	}
	return r
}

type onTick struct {
	n, seen int
	f       Value
	fired   bool
}
