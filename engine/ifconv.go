package main

import "golang.org/x/tools/go/ssa"

// branchIf decides an If instruction. (If-conversion of pure diamonds hooks in here.)
func (ex *Exec) branchIf(fr *frame, instr *ssa.If, c *Term) bool {
	return ex.Branch(c, "if")
}
