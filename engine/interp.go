package main

// Symbolic interpreter for go/ssa, structured after golang.org/x/tools/go/ssa/interp.

import (
	"fmt"
	"go/token"
	"go/types"
	"slices"
	"strings"

	"golang.org/x/tools/go/ssa"
)

type deferred struct {
	fn    Value
	args  []Value
	instr *ssa.Defer
	tail  *deferred
}

type frame struct {
	ex               *Exec
	caller           *frame
	fn               *ssa.Function
	block, prevBlock *ssa.BasicBlock
	env              map[ssa.Value]Value
	locals           []Value
	defers           *deferred
	result           Value
	panicking        bool
	panic            any
	phitemps         []Value
	stackBase        int
}

func (fr *frame) get(key ssa.Value) Value {
	switch key := key.(type) {
	case nil:
		return nil
	case *ssa.Function, *ssa.Builtin:
		return key
	case *ssa.Const:
		return fr.ex.constValue(key)
	case *ssa.Global:
		return fr.ex.globalAddr(key)
	}
	if r, ok := fr.env[key]; ok {
		return r
	}
	panic(fmt.Sprintf("get: no value for %T: %v in %s", key, key.Name(), fr.fn))
}

func (fr *frame) runDefer(d *deferred) {
	var ok bool
	defer func() {
		if !ok {
			r := recover()
			if pa, isAbort := r.(pathAbort); isAbort {
				panic(pa)
			}
			fr.panicking = true
			fr.panic = r
		}
	}()
	fr.ex.call(fr, d.instr.Pos(), d.fn, d.args)
	ok = true
}

func (fr *frame) runDefers() {
	for d := fr.defers; d != nil; d = d.tail {
		fr.runDefer(d)
	}
	fr.defers = nil
	if fr.panicking {
		panic(fr.panic)
	}
}

func (ex *Exec) lookupMethod(typ types.Type, meth *types.Func) *ssa.Function {
	return ex.eng.prog.LookupMethod(typ, meth.Pkg(), meth.Name())
}

func asConstInt(v Value) (int64, bool) {
	t, ok := v.(*Term)
	if !ok || !t.IsConst() {
		return 0, false
	}
	if t.W == 0 {
		return int64(t.C), true
	}
	return sext(t.C, t.W), true
}

// concreteInt returns the value of an integer operand that must be concrete here
// (slice bounds, lengths, capacities).
func (ex *Exec) concreteInt(v Value, what string, signed bool) int64 {
	t, ok := v.(*Term)
	if !ok {
		panic(fmt.Sprintf("concreteInt(%s): %T", what, v))
	}
	if t.IsConst() {
		if signed {
			return sext(t.C, t.W)
		}
		return int64(t.C)
	}
	return ex.concretize(t, what, signed)
}

// concretize forks over the feasible values of a symbolic integer (bounded).
func (ex *Exec) concretize(t *Term, what string, signed bool) int64 {
	const maxVals = 64
	// Enumerate values by repeated model queries, as decisions.
	for n := 0; n < maxVals; n++ {
		r, m := ex.modelForTerm(t)
		if r != Sat {
			if r == Unknown {
				ex.unsupported("concretize %s: solver unknown", what)
			}
			ex.abort(abInfeasible, "concretize %s: no more values", what)
		}
		k := K(t.W, m)
		if ex.Branch(ex.ts.Eq(t, k), "concretize "+what) {
			if signed {
				return sext(m, t.W)
			}
			return int64(m)
		}
	}
	ex.unsupported("concretize %s: more than %d feasible values", what, maxVals)
	return 0
}

// modelForTerm returns one feasible value of t under the PC. To keep prefix
// replay deterministic the smallest unsigned value is searched by bisection-free
// approach: ask for a model and then minimise greedily bit by bit.
func (ex *Exec) modelForTerm(t *Term) (SatResult, uint64) {
	// a pick recorded while this prefix was first explored
	if i := len(ex.takenVals); i < len(ex.prefixVals) && len(ex.taken) < len(ex.prefix) {
		ex.takenVals = append(ex.takenVals, ex.prefixVals[i])
		return Sat, ex.prefixVals[i]
	}
	r, v := ex.minValue(t)
	if r == Sat {
		ex.takenVals = append(ex.takenVals, v)
	}
	return r, v
}

// minValue returns the smallest unsigned value t can take under the path
// condition. With a model at hand its value of t is an upper bound and the
// minimum is found by bisection below it (no query at all when the model says 0).
func (ex *Exec) minValue(t *Term) (SatResult, uint64) {
	ex.ensureModel()
	if ex.model != nil {
		ok := true
		var hi uint64
		func() {
			defer func() {
				if recover() != nil {
					ok = false
				}
			}()
			hi = evalTerm(t, ex.model)
		}()
		if ok {
			lo := uint64(0)
			for lo < hi {
				mid := lo + (hi-lo)/2
				switch ex.check(ex.ts.Cmp(OpULe, t, K(t.W, mid))) {
				case Sat:
					hi = mid
				case Unsat:
					lo = mid + 1
				default:
					return Unknown, 0
				}
			}
			return Sat, lo
		}
	}
	// minimal value: for each bit from the top, try to force it to zero.
	if ex.check(nil) != Sat {
		return Unsat, 0
	}
	var fixed *Term = True
	val := uint64(0)
	for b := t.W - 1; b >= 0; b-- {
		bit := ex.ts.Extract(t, b, b)
		try := ex.ts.And(fixed, ex.ts.Eq(bit, K(1, 0)))
		r := ex.check(try)
		if r == Sat {
			fixed = try
		} else if r == Unsat {
			fixed = ex.ts.And(fixed, ex.ts.Eq(bit, K(1, 1)))
			val |= 1 << uint(b)
		} else {
			return Unknown, 0
		}
	}
	return Sat, val
}

func (ex *Exec) visitInstr(fr *frame, instr ssa.Instruction) (ret bool) {
	ex.tick()
	switch instr := instr.(type) {
	case *ssa.DebugRef:

	case *ssa.UnOp:
		fr.env[instr] = ex.unop(fr, instr, fr.get(instr.X))

	case *ssa.BinOp:
		fr.env[instr] = ex.binop(instr.Op, instr.X.Type(), instr.Y.Type(), fr.get(instr.X), fr.get(instr.Y))

	case *ssa.Call:
		fn, args := ex.prepareCall(fr, &instr.Call)
		fr.env[instr] = ex.call(fr, instr.Pos(), fn, args)

	case *ssa.ChangeInterface:
		fr.env[instr] = fr.get(instr.X)

	case *ssa.ChangeType:
		fr.env[instr] = fr.get(instr.X)

	case *ssa.Convert:
		fr.env[instr] = ex.conv(instr.Type(), instr.X.Type(), fr.get(instr.X))

	case *ssa.SliceToArrayPointer:
		x := fr.get(instr.X).([]Value)
		n := instr.Type().Underlying().(*types.Pointer).Elem().Underlying().(*types.Array).Len()
		if int64(len(x)) < n {
			ex.targetPanicStr("slice to array pointer: length too short")
		}
		if x == nil {
			fr.env[instr] = (*Value)(nil)
		} else {
			// arrays are stored by value inside a cell; share the backing elements
			var cell Value = array(x[:n:n])
			fr.env[instr] = &cell
		}

	case *ssa.MakeInterface:
		fr.env[instr] = iface{t: instr.X.Type(), v: copyVal(fr.get(instr.X))}

	case *ssa.Extract:
		fr.env[instr] = fr.get(instr.Tuple).(tuple)[instr.Index]

	case *ssa.Slice:
		fr.env[instr] = ex.slice(instr, fr.get(instr.X), fr.get(instr.Low), fr.get(instr.High), fr.get(instr.Max))

	case *ssa.Return:
		switch len(instr.Results) {
		case 0:
		case 1:
			fr.result = fr.get(instr.Results[0])
		default:
			res := make(tuple, 0, len(instr.Results))
			for _, r := range instr.Results {
				res = append(res, fr.get(r))
			}
			fr.result = res
		}
		fr.block = nil
		return true

	case *ssa.RunDefers:
		fr.runDefers()

	case *ssa.Panic:
		v := fr.get(instr.X)
		panic(targetPanic{v: v, msg: ex.panicString(v)})

	case *ssa.Send:
		ch := fr.get(instr.Chan).(*Chan)
		ex.chanSend(ch, fr.get(instr.X))

	case *ssa.Store:
		addr := fr.get(instr.Addr)
		ex.store(addr, fr.get(instr.Val))

	case *ssa.If:
		c := fr.get(instr.Cond).(*Term)
		succ := 1
		if ex.branchIf(fr, instr, c) {
			succ = 0
		}
		fr.prevBlock, fr.block = fr.block, fr.block.Succs[succ]

	case *ssa.Jump:
		fr.prevBlock, fr.block = fr.block, fr.block.Succs[0]

	case *ssa.Defer:
		fn, args := ex.prepareCall(fr, &instr.Call)
		defers := &fr.defers
		if instr.DeferStack != nil {
			if into := fr.get(instr.DeferStack); into != nil {
				p := into.(*Value)
				ds, _ := (*p).(native)
				stack, _ := ds.obj.(**deferred)
				if stack != nil {
					defers = stack
				}
			}
		}
		*defers = &deferred{fn: fn, args: args, instr: instr, tail: *defers}

	case *ssa.Go:
		fn, args := ex.prepareCall(fr, &instr.Call)
		ex.goStmt(fr, instr, fn, args)

	case *ssa.MakeChan:
		n := ex.concreteInt(fr.get(instr.Size), "chan size", true)
		fr.env[instr] = &Chan{cap: int(n), elemT: instr.Type().Underlying().(*types.Chan).Elem()}

	case *ssa.Alloc:
		var addr *Value
		if instr.Heap {
			addr = new(Value)
			fr.env[instr] = addr
		} else {
			addr = fr.env[instr].(*Value)
		}
		*addr = zero(deref(instr.Type()))

	case *ssa.MakeSlice:
		cp := ex.concreteInt(fr.get(instr.Cap), "make cap", true)
		ln := ex.concreteInt(fr.get(instr.Len), "make len", true)
		if ln < 0 || cp < ln {
			ex.targetPanicStr("makeslice: len out of range")
		}
		if cp > 1<<26 {
			ex.unsupported("make slice of %d elements", cp)
		}
		sl := make([]Value, cp)
		tElt := instr.Type().Underlying().(*types.Slice).Elem()
		z := zero(tElt)
		for i := range sl {
			sl[i] = copyVal(z)
		}
		fr.env[instr] = sl[:ln]

	case *ssa.MakeMap:
		mt := instr.Type().Underlying().(*types.Map)
		fr.env[instr] = newMap(mt.Key(), mt.Elem())

	case *ssa.Range:
		fr.env[instr] = ex.rangeIter(instr, fr.get(instr.X))

	case *ssa.Next:
		fr.env[instr] = fr.get(instr.Iter).(iter).next(ex)

	case *ssa.FieldAddr:
		p := fr.get(instr.X).(*Value)
		if p == nil {
			ex.targetPanicStr("nil pointer dereference (field address)")
		}
		s, ok := (*p).(structure)
		if !ok {
			ex.unsupported("FieldAddr on %T (%s)", *p, instr.X.Type())
		}
		fr.env[instr] = &s[instr.Field]

	case *ssa.Field:
		fr.env[instr] = fr.get(instr.X).(structure)[instr.Field]

	case *ssa.IndexAddr:
		x := fr.get(instr.X)
		idx := fr.get(instr.Index).(*Term)
		switch x := x.(type) {
		case []Value:
			i := ex.indexCheck(idx, len(x), isSignedType(instr.Index.Type()))
			fr.env[instr] = &x[i]
		case *Value:
			if x == nil {
				ex.targetPanicStr("nil pointer dereference (array index)")
			}
			a := (*x).(array)
			i := ex.indexCheck(idx, len(a), isSignedType(instr.Index.Type()))
			fr.env[instr] = &a[i]
		default:
			panic(fmt.Sprintf("unexpected x type in IndexAddr: %T", x))
		}

	case *ssa.Index:
		x := fr.get(instr.X)
		idx := fr.get(instr.Index).(*Term)
		switch x := x.(type) {
		case array:
			i := ex.indexCheck(idx, len(x), isSignedType(instr.Index.Type()))
			fr.env[instr] = copyVal(x[i])
		case string:
			i := ex.indexCheck(idx, len(x), isSignedType(instr.Index.Type()))
			fr.env[instr] = K(8, uint64(x[i]))
		default:
			panic(fmt.Sprintf("unexpected x type in Index: %T", x))
		}

	case *ssa.Lookup:
		fr.env[instr] = ex.lookup(instr, fr.get(instr.X), fr.get(instr.Index))

	case *ssa.MapUpdate:
		m := fr.get(instr.Map).(*Map)
		ex.mapInsert(m, fr.get(instr.Key), copyVal(fr.get(instr.Value)))

	case *ssa.TypeAssert:
		fr.env[instr] = ex.typeAssert(instr, fr.get(instr.X).(iface))

	case *ssa.MakeClosure:
		var bindings []Value
		for _, b := range instr.Bindings {
			bindings = append(bindings, fr.get(b))
		}
		fr.env[instr] = &closure{instr.Fn.(*ssa.Function), bindings}

	case *ssa.Phi:
		panic("unreachable: phi")

	case *ssa.Select:
		fr.env[instr] = ex.selectStmt(fr, instr)

	default:
		panic(fmt.Sprintf("unexpected instruction: %T", instr))
	}
	return false
}

func deref(t types.Type) types.Type {
	if p, ok := t.Underlying().(*types.Pointer); ok {
		return p.Elem()
	}
	panic(fmt.Sprintf("deref: not a pointer: %v", t))
}

func isSignedType(t types.Type) bool {
	_, s, _ := typeWidth(t)
	return s
}

// indexCheck returns the concrete index, branching on bounds for symbolic ones.
func (ex *Exec) indexCheck(idx *Term, n int, signed bool) int {
	if idx.IsConst() {
		var i int64
		if signed {
			i = sext(idx.C, idx.W)
		} else {
			i = int64(idx.C)
			if idx.C > 1<<62 {
				i = -1
			}
		}
		if i < 0 || i >= int64(n) {
			ex.targetPanicStr(fmt.Sprintf("index out of range [%d] with length %d", i, n))
		}
		return int(i)
	}
	// symbolic: in-range?
	inRange := ex.ts.Cmp(OpULt, idx, K(idx.W, uint64(n)))
	if !ex.Branch(inRange, "index in range") {
		ex.targetPanicStr(fmt.Sprintf("index out of range [symbolic] with length %d", n))
	}
	return int(ex.concretize(idx, "index", false))
}

func (ex *Exec) store(addr Value, v Value) {
	switch p := addr.(type) {
	case *Value:
		if p == nil {
			ex.targetPanicStr("nil pointer dereference (store)")
		}
		*p = copyVal(v)
	default:
		ex.unsupported("store through %T", addr)
	}
}

func (ex *Exec) load(addr Value) Value {
	switch p := addr.(type) {
	case *Value:
		if p == nil {
			ex.targetPanicStr("nil pointer dereference (load)")
		}
		return copyVal(*p)
	}
	ex.unsupported("load through %T", addr)
	return nil
}

func (ex *Exec) prepareCall(fr *frame, call *ssa.CallCommon) (fn Value, args []Value) {
	v := fr.get(call.Value)
	if call.Method == nil {
		fn = v
	} else {
		recv, ok := v.(iface)
		if !ok {
			panic(fmt.Sprintf("invoke on %T", v))
		}
		if recv.t == nil {
			ex.targetPanicStr("nil pointer dereference (method call on nil interface: " + call.Method.Name() + ")")
		}
		if nm, ok := recv.v.(nativeMethods); ok {
			fn = &nativeCall{recv: nm, name: call.Method.Name()}
		} else {
			f := ex.lookupMethod(recv.t, call.Method)
			if f == nil {
				panic(fmt.Sprintf("method set for dynamic type %v does not contain %s", recv.t, call.Method))
			}
			fn = f
			args = append(args, recv.v)
		}
	}
	for _, arg := range call.Args {
		args = append(args, fr.get(arg))
	}
	return
}

// nativeMethods is implemented by engine-side objects that appear as interface
// values in the target (e.g. the engine's error values).
type nativeMethods interface {
	callMethod(ex *Exec, name string, args []Value) Value
}

type nativeCall struct {
	recv nativeMethods
	name string
}

func (ex *Exec) call(caller *frame, callpos token.Pos, fn Value, args []Value) Value {
	switch fn := fn.(type) {
	case *ssa.Function:
		if fn == nil {
			ex.targetPanicStr("call of nil function")
		}
		return ex.callSSA(caller, callpos, fn, args, nil)
	case *closure:
		if fn == nil {
			ex.targetPanicStr("call of nil function")
		}
		return ex.callSSA(caller, callpos, fn.Fn, args, fn.Env)
	case *ssa.Builtin:
		return ex.callBuiltin(caller, fn, args)
	case *nativeCall:
		return fn.recv.callMethod(ex, fn.name, args)
	case nativeFunc:
		return fn(ex, args)
	}
	panic(fmt.Sprintf("cannot call %T", fn))
}

// nativeFunc is an engine-side function stored where the target expects a func value.
type nativeFunc func(ex *Exec, args []Value) Value

func (ex *Exec) callSSA(caller *frame, callpos token.Pos, fn *ssa.Function, args []Value, env []Value) Value {
	fr := &frame{ex: ex, caller: caller, fn: fn}
	if ex.initMode && fn.Name() == "init" && fn.Pkg != nil && fn == fn.Pkg.Func("init") && fn.Pkg != ex.initPkg {
		return nil // other packages initialise lazily
	}
	base := len(ex.callStack)
	if in := ex.eng.intrinsicFor(fn); in != nil {
		ex.callStack = append(ex.callStack, fn)
		r := in(ex, fr, args)
		ex.callStack = ex.callStack[:base]
		return r
	}
	if fn.Blocks == nil {
		ex.eng.buildFn(fn)
		if fn.Blocks == nil {
			if ex.initMode {
				// package initialisers touch the operating system (os.Stdin, ...): such
				// values are left zero; the targets never use them
				res := fn.Signature.Results()
				if res.Len() == 0 {
					return nil
				}
				return zero(res)
			}
			ex.unsupported("no code for function %s", fn)
		}
	}
	if fn.TypeParams().Len() > 0 && len(fn.TypeArgs()) == 0 {
		ex.unsupported("uninstantiated generic %s", fn)
	}
	if base > 400 {
		ex.abort(abBudget, "call depth exceeded in %s", fn)
	}
	// The stack is popped on normal return only, so that a panic still shows where
	// it happened; a frame that recovers a target panic truncates it (runFrame).
	ex.callStack = append(ex.callStack, fn)
	fr.stackBase = base
	if ex.res.FuncsUsed != nil {
		ex.res.FuncsUsed[fn] = true
	}

	fr.env = make(map[ssa.Value]Value, 16)
	fr.block = fn.Blocks[0]
	fr.locals = make([]Value, len(fn.Locals))
	for i, l := range fn.Locals {
		fr.locals[i] = zero(deref(l.Type()))
		fr.env[l] = &fr.locals[i]
	}
	for i, p := range fn.Params {
		fr.env[p] = args[i]
	}
	for i, fv := range fn.FreeVars {
		fr.env[fv] = env[i]
	}
	for fr.block != nil {
		ex.runFrame(fr)
	}
	ex.callStack = ex.callStack[:base]
	return fr.result
}

func (ex *Exec) runFrame(fr *frame) {
	defer func() {
		if fr.block == nil {
			return // normal return
		}
		r := recover()
		if pa, ok := r.(pathAbort); ok {
			panic(pa)
		}
		if _, ok := r.(targetPanic); !ok {
			// interpreter bug or Go runtime error inside the engine: surface it
			panic(r)
		}
		fr.panicking = true
		fr.panic = r
		ex.callStack = ex.callStack[:fr.stackBase+1]
		fr.runDefers()
		fr.block = fr.fn.Recover
		if fr.block == nil {
			// recovered in a function without named results: return zero values
			fr.result = zero(fr.fn.Signature.Results())
			if fr.fn.Signature.Results().Len() == 0 {
				fr.result = nil
			}
		}
	}()

	for {
		nonPhis := ex.executePhis(fr)
		for _, instr := range nonPhis {
			if ex.visitInstr(fr, instr) {
				return
			}
		}
	}
}

func (ex *Exec) executePhis(fr *frame) []ssa.Instruction {
	firstNonPhi := -1
	for i, instr := range fr.block.Instrs {
		if _, ok := instr.(*ssa.Phi); !ok {
			firstNonPhi = i
			break
		}
	}
	nonPhis := fr.block.Instrs[firstNonPhi:]
	if firstNonPhi > 0 {
		phis := fr.block.Instrs[:firstNonPhi]
		predIndex := slices.Index(fr.block.Preds, fr.prevBlock)
		fr.phitemps = fr.phitemps[:0]
		for _, phi := range phis {
			fr.phitemps = append(fr.phitemps, fr.get(phi.(*ssa.Phi).Edges[predIndex]))
		}
		for i, phi := range phis {
			fr.env[phi.(*ssa.Phi)] = fr.phitemps[i]
		}
	}
	return nonPhis
}

func (ex *Exec) doRecover(caller *frame) Value {
	if caller != nil && !caller.panicking && caller.caller != nil && caller.caller.panicking {
		caller.caller.panicking = false
		p := caller.caller.panic
		caller.caller.panic = nil
		switch p := p.(type) {
		case targetPanic:
			return p.v
		default:
			panic(fmt.Sprintf("unexpected panic type %T in target call to recover()", p))
		}
	}
	return iface{}
}

func (ex *Exec) panicString(v Value) string {
	switch v := v.(type) {
	case iface:
		if v.t == nil {
			return "panic(nil)"
		}
		if s, ok := v.v.(string); ok {
			return s
		}
		if ne, ok := v.v.(*nativeErr); ok {
			return ne.msg
		}
		// error values of SSA types: try Error()
		if m := ex.eng.prog.LookupMethod(v.t, nil, "Error"); m != nil {
			func() {
				defer func() { recover() }()
			}()
			return fmt.Sprintf("panic(%s)", v.t)
		}
		return fmt.Sprintf("panic(%s)", v.t)
	case string:
		return v
	}
	return fmt.Sprintf("panic(%T)", v)
}

// goStmt runs a goroutine body inline to completion (sound only for bodies that
// do not block; blocking operations abort the path as unsupported).
func (ex *Exec) goStmt(fr *frame, instr *ssa.Go, fn Value, args []Value) {
	if f, ok := fn.(*ssa.Function); ok {
		if ex.eng.skipGo[f.String()] {
			return
		}
	}
	if c, ok := fn.(*closure); ok {
		if ex.eng.skipGo[c.Fn.String()] {
			return
		}
	}
	ex.call(nil, instr.Pos(), fn, args)
}

func fnName(fn *ssa.Function) string {
	if o := fn.Origin(); o != nil {
		return o.String()
	}
	return fn.String()
}

var _ = strings.Contains
