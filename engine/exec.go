package main

// One path execution: decisions, path condition, obligations.

import (
	"fmt"
	"go/types"
	"os"
	"sort"
	"strings"
	"sync/atomic"

	"golang.org/x/tools/go/ssa"
)

type abortKind int

const (
	abInfeasible  abortKind = iota // assumption unsatisfiable: path ends silently
	abUnsupported                  // engine cannot model something: inconclusive
	abBudget                       // unwinding failure
	abStop                         // harness finished early (assert const-false etc.)
	abSolver                       // solver failure: inconclusive
)

type pathAbort struct {
	kind abortKind
	msg  string
}

// targetPanic is a Go-level panic of the interpreted program.
type targetPanic struct {
	v   Value
	msg string
}

type Violation struct {
	Label    string            `json:"label"`
	Kind     string            `json:"kind"` // "assert" | "panic"
	Known    string            `json:"known,omitempty"`
	Inputs   map[string]uint64 `json:"inputs"`
	Decision []int32           `json:"decisions"`
	Detail   string            `json:"detail,omitempty"`
	Observed []string          `json:"observed,omitempty"`
	Ghost    bool              `json:"ghost,omitempty"` // depends on ghost state of the file-system model
}

type PathResult struct {
	Decisions    []int32
	Forks        []forkItem
	Obligations  int
	Discharged   int
	Violations   []Violation
	Inconclusive []string
	Reached      map[string]int
	Aborted      *pathAbort
	Steps        int64
	NDecisions   int
	Observed     []string
	SampleModel  map[string]uint64 // model of the final PC (for path validation), if requested
	PCString     string
	FuncsUsed    map[*ssa.Function]bool
	NMulSym      int
	Panicked     string
}

type Exec struct {
	eng          *Engine
	ts           *TermStore
	sess         *Session
	prefix       []int32
	taken        []int32
	pc           []*Term
	occ          map[string]int
	choices      map[string]uint64 // concrete decision inputs (Choose/Fault) by name#occ
	steps        int64
	maxSteps     int64
	maxDecisions int
	globals      map[*ssa.Global]*Value
	gmemo        map[any]any
	res          *PathResult
	known        []knownClass
	depth        int
	ghost        map[string]any // free-form per-path state for intrinsics (symfs, clock, logs)
	wantSample   bool
	curFn        *ssa.Function
	callStack    []*ssa.Function
	initMode     bool
	initPkg      *ssa.Package
	obsTerms     []obsTerm
	byteGroups   []byteGroup
	replay       map[string]uint64 // concrete re-execution: every input takes its value from here
	// model is an assignment known to satisfy the path condition (nil: none at
	// hand). A branch condition is first evaluated under it: the side the model
	// takes is feasible without asking the solver, so only the other side costs a
	// query. Variables introduced after the model was fetched read as 0; every
	// constraint added to the path condition is evaluated under the model and
	// drops it when it does not hold.
	model        map[string]uint64
	modelEvals   int64
	ghostQueried bool     // the harness read ghost state of the file-system model (dirty bits, events)
	prefixVals   []uint64 // concretize picks recorded along the prefix
	takenVals    []uint64
}

// forkItem is a sibling path still to be explored: its decision prefix and the
// values picked by concretize along it (so that a replay of the prefix does not
// have to ask the solver for them again).
type forkItem struct {
	dec  []int32
	vals []uint64
}

func (ex *Exec) pushFork(sib []int32) {
	ex.res.Forks = append(ex.res.Forks, forkItem{dec: sib, vals: append([]uint64(nil), ex.takenVals...)})
}

type knownClass struct {
	id   string
	cond *Term
}

func (ex *Exec) abort(kind abortKind, format string, args ...any) {
	panic(pathAbort{kind, fmt.Sprintf(format, args...)})
}

func (ex *Exec) unsupported(format string, args ...any) {
	where := ""
	if n := len(ex.callStack); n > 0 {
		var parts []string
		for i := n - 1; i >= 0 && i >= n-4; i-- {
			parts = append(parts, ex.callStack[i].String())
		}
		where = " in " + strings.Join(parts, " < ")
	}
	panic(pathAbort{abUnsupported, fmt.Sprintf(format, args...) + where})
}

func (ex *Exec) targetPanicStr(msg string) {
	panic(targetPanic{v: iface{t: ex.eng.runtimeErrType(), v: msg}, msg: msg})
}

func (ex *Exec) assume(c *Term) {
	if c.IsTrue() {
		return
	}
	if ex.model != nil {
		if v, ok := ex.evalCond(c); !ok || !v {
			ex.model = nil
		}
	}
	ex.pc = append(ex.pc, c)
	ex.sess.Assert(c)
}

var modelGuided = os.Getenv("GOSYM_NO_MODEL") == ""
var modelParanoid = os.Getenv("GOSYM_MODEL_PARANOID") != ""

// evalCond evaluates a boolean term under the cached model.
func (ex *Exec) evalCond(c *Term) (val bool, ok bool) {
	if ex.model == nil {
		return false, false
	}
	defer func() {
		if r := recover(); r != nil {
			val, ok = false, false
		}
	}()
	ex.modelEvals++
	return evalTerm(c, ex.model) == 1, true
}

// ensureModel fetches a model of the path condition if none is at hand.
func (ex *Exec) ensureModel() {
	if ex.model != nil || !modelGuided || ex.replay != nil {
		return
	}
	r, m, err := ex.sess.Check(nil, true, ex.ts.vars)
	if err != nil || r != Sat {
		return
	}
	if m == nil {
		m = map[string]uint64{}
	}
	if !ex.modelSatisfies(m, nil) {
		atomic.AddInt64(&gStats.BadModels, 1)
		return // not a model of the path: go without one
	}
	ex.model = m
}

func (ex *Exec) check(extra *Term) SatResult {
	r, _, err := ex.sess.Check(extra, false, nil)
	if err != nil {
		ex.res.Inconclusive = append(ex.res.Inconclusive, err.Error())
		if strings.Contains(err.Error(), "died") {
			ex.abort(abSolver, "%v", err)
		}
		return Unknown
	}
	return r
}

// Branch decides a symbolic condition, forking if both sides are feasible.
func (ex *Exec) Branch(c *Term, why string) bool {
	if c.IsConst() {
		return c.C == 1
	}
	i := len(ex.taken)
	if i >= ex.maxDecisions {
		ex.abort(abBudget, "decision budget %d exhausted", ex.maxDecisions)
	}
	if i < len(ex.prefix) {
		d := ex.prefix[i]
		ex.taken = append(ex.taken, d)
		if d == 1 {
			ex.assume(c)
		} else {
			ex.assume(ex.ts.Not(c))
		}
		return d == 1
	}
	nc := ex.ts.Not(c)
	ex.ensureModel()
	if v, ok := ex.evalCond(c); ok {
		// the model's side is feasible; only the other side needs the solver
		mine, other := c, nc
		d := int32(1)
		if !v {
			mine, other, d = nc, c, 0
		}
		if modelParanoid && ex.check(mine) != Sat {
			ex.res.Inconclusive = append(ex.res.Inconclusive, "model-guided branch: the solver does not confirm the side the model takes ("+why+")")
		}
		if ex.check(other) != Unsat {
			sib := make([]int32, len(ex.taken)+1)
			copy(sib, ex.taken)
			sib[len(ex.taken)] = 1 - d
			ex.pushFork(sib)
		}
		ex.taken = append(ex.taken, d)
		ex.assume(mine)
		return d == 1
	}
	rt := ex.check(c)
	if rt == Unsat {
		ex.taken = append(ex.taken, 0)
		ex.assume(ex.ts.Not(c))
		return false
	}
	rf := ex.check(nc)
	if rf == Unsat {
		ex.taken = append(ex.taken, 1)
		ex.assume(c)
		return true
	}
	// both sides feasible (or undecided): fork
	sib := make([]int32, len(ex.taken)+1)
	copy(sib, ex.taken)
	sib[len(ex.taken)] = 0
	ex.pushFork(sib)
	ex.taken = append(ex.taken, 1)
	ex.assume(c)
	return true
}

// Choose returns a value in [lo,hi]; every value is explored.
func (ex *Exec) Choose(name string, lo, hi int) int {
	if hi < lo {
		ex.abort(abInfeasible, "empty choice %s", name)
	}
	key := ex.inputName(name)
	if ex.replay != nil {
		v := int(int64(ex.replay[key]))
		if v < lo || v > hi {
			ex.abort(abInfeasible, "replay value %d for %s outside [%d,%d]", v, key, lo, hi)
		}
		ex.choices[key] = uint64(v)
		return v
	}
	if lo == hi {
		ex.choices[key] = uint64(lo)
		return lo
	}
	i := len(ex.taken)
	if i >= ex.maxDecisions {
		ex.abort(abBudget, "decision budget %d exhausted", ex.maxDecisions)
	}
	var d int32
	if i < len(ex.prefix) {
		d = ex.prefix[i]
	} else {
		d = 0
		for k := hi - lo; k >= 1; k-- {
			sib := make([]int32, len(ex.taken)+1)
			copy(sib, ex.taken)
			sib[len(ex.taken)] = int32(k)
			ex.pushFork(sib)
		}
	}
	ex.taken = append(ex.taken, d)
	v := lo + int(d)
	ex.choices[key] = uint64(v)
	return v
}

func (ex *Exec) inputName(name string) string {
	k := ex.occ[name]
	ex.occ[name] = k + 1
	return fmt.Sprintf("%s#%d", name, k)
}

func (ex *Exec) NewInput(name string, w int) *Term {
	key := ex.inputName(name)
	if ex.replay != nil {
		return K(w, ex.replay[key])
	}
	return ex.ts.Var(key, w)
}

// Assume adds a harness assumption; an unsatisfiable one ends the path silently.
func (ex *Exec) Assume(c *Term) {
	if c.IsTrue() {
		return
	}
	if c.IsFalse() {
		ex.abort(abInfeasible, "assume false")
	}
	if len(ex.taken) < len(ex.prefix) {
		// inside the replayed prefix feasibility was established already
		ex.assume(c)
		return
	}
	if v, ok := ex.evalCond(c); ok && v {
		ex.assume(c)
		return
	}
	if ex.check(c) == Unsat {
		ex.abort(abInfeasible, "assumption unsatisfiable")
	}
	ex.assume(c)
}

func (ex *Exec) knownDisj() *Term {
	d := False
	for _, k := range ex.known {
		d = ex.ts.Or(d, k.cond)
	}
	return d
}

// modelSatisfies evaluates the path condition and extra under a model returned by
// the solver (missing variables read as 0, as in the replay file). A model that
// does not satisfy them is a solver artefact, not a counterexample.
func (ex *Exec) modelSatisfies(m map[string]uint64, extra *Term) (ok bool) {
	defer func() {
		if recover() != nil {
			ok = true // a term the evaluator cannot fold: nothing to say
		}
	}()
	te := newTermEval(m)
	for _, c := range ex.pc {
		if te.eval(c) != 1 {
			return false
		}
	}
	if extra != nil && te.eval(extra) != 1 {
		return false
	}
	return true
}

func (ex *Exec) modelFor(extra *Term) (SatResult, map[string]uint64) {
	r, m, err := ex.sess.Check(extra, true, ex.ts.vars)
	if err != nil {
		ex.res.Inconclusive = append(ex.res.Inconclusive, err.Error())
		return Unknown, nil
	}
	if r == Sat && m != nil && !ex.modelSatisfies(m, extra) {
		// re-decide in a fresh solver process from the path's own log
		atomic.AddInt64(&gStats.BadModels, 1)
		r, m, err = ex.sess.CheckFresh(extra, ex.ts.vars)
		if err != nil {
			ex.res.Inconclusive = append(ex.res.Inconclusive, err.Error())
			return Unknown, nil
		}
		if r == Sat && m != nil && !ex.modelSatisfies(m, extra) {
			ex.res.Inconclusive = append(ex.res.Inconclusive, "solver returned a model that does not satisfy the query, twice")
			return Unknown, nil
		}
	}
	if r == Sat {
		if m == nil {
			m = map[string]uint64{}
		}
		for k, v := range ex.choices {
			m[k] = v
		}
		for _, g := range ex.byteGroups {
			w := m[g.word]
			for j, bn := range g.bytes {
				m[bn] = (w >> uint(24-8*j)) & 0xff
			}
		}
	}
	return r, m
}

// byteGroup ties a 32-bit word variable to the four byte-sized inputs it stands for.
type byteGroup struct {
	word  string
	bytes [4]string
}

// Assert is a proof obligation: sat(PC ∧ ¬c) must be unsat.
func (ex *Exec) Assert(label string, c *Term) {
	ex.res.Reached[label]++
	ex.res.Obligations++
	if c.IsTrue() {
		ex.res.Discharged++
		return
	}
	nc := ex.ts.Not(c)
	kd := ex.knownDisj()
	// 1. violations outside every known class
	q := ex.ts.And(nc, ex.ts.Not(kd))
	r, m := ex.modelFor(q)
	switch r {
	case Sat:
		ex.res.Violations = append(ex.res.Violations, Violation{Label: label, Kind: "assert", Inputs: m, Ghost: ex.ghostQueried,
			Decision: append([]int32(nil), ex.taken...), Observed: append([]string(nil), ex.res.Observed...)})
	case Unknown:
		ex.res.Inconclusive = append(ex.res.Inconclusive, "assert "+label+": solver unknown")
	}
	// 2. violations inside each known class
	okAll := r == Unsat
	for _, k := range ex.known {
		rk, mk := ex.modelFor(ex.ts.And(nc, k.cond))
		switch rk {
		case Sat:
			okAll = false
			ex.res.Violations = append(ex.res.Violations, Violation{Label: label, Kind: "assert", Known: k.id, Inputs: mk, Ghost: ex.ghostQueried,
				Decision: append([]int32(nil), ex.taken...), Observed: append([]string(nil), ex.res.Observed...)})
		case Unknown:
			okAll = false
			ex.res.Inconclusive = append(ex.res.Inconclusive, "assert "+label+" (known class "+k.id+"): solver unknown")
		}
	}
	if okAll {
		ex.res.Discharged++
	}
	if c.IsFalse() {
		ex.abort(abStop, "assertion %s is constant false", label)
	}
	// continue under the assumption that the assertion holds
	if v, ok := ex.evalCond(c); !(ok && v) && ex.check(c) == Unsat {
		ex.abort(abStop, "assertion %s fails on every input of this path", label)
	}
	ex.assume(c)
}

func (ex *Exec) Known(id string, c *Term) {
	if !ex.eng.knownActive[id] {
		return
	}
	ex.known = append(ex.known, knownClass{id, c})
}

func (ex *Exec) tick() {
	ex.steps++
	if ex.steps > ex.maxSteps {
		ex.abort(abBudget, "instruction budget %d exhausted", ex.maxSteps)
	}
}

func (ex *Exec) pcString() string {
	var parts []string
	for _, c := range ex.pc {
		s := c.String()
		if len(s) > 300 {
			s = s[:300] + "…"
		}
		parts = append(parts, s)
		if len(parts) >= 12 {
			parts = append(parts, fmt.Sprintf("… (%d conjuncts)", len(ex.pc)))
			break
		}
	}
	return strings.Join(parts, " ∧ ")
}

func sortedKeys[V any](m map[string]V) []string {
	ks := make([]string, 0, len(m))
	for k := range m {
		ks = append(ks, k)
	}
	sort.Strings(ks)
	return ks
}

var _ = types.Identical
