package main

// encoding/json for litestream.Lease: an injective fixed-layout blob with
// dec(enc(x)) = x. Anything else is unsupported.

import (
	"go/types"
	"strings"
)

func isLeaseType(t types.Type) bool {
	if p, ok := t.Underlying().(*types.Pointer); ok {
		t = p.Elem()
	}
	n, ok := t.(*types.Named)
	return ok && n.Obj().Name() == "Lease" && n.Obj().Pkg() != nil && strings.HasSuffix(n.Obj().Pkg().Path(), "benbjohnson/litestream")
}

func (ex *Exec) be(t *Term, nbytes int) []Value {
	out := make([]Value, nbytes)
	for i := 0; i < nbytes; i++ {
		hi := 8*(nbytes-i) - 1
		out[i] = ex.ts.Extract(t, hi, hi-7)
	}
	return out
}

func (ex *Exec) fromBE(b []Value) *Term {
	var acc *Term
	for _, x := range b {
		if acc == nil {
			acc = x.(*Term)
		} else {
			acc = ex.ts.Concat(acc, x.(*Term))
		}
	}
	return acc
}

func (ex *Exec) leaseEncode(v Value) []Value {
	if p, ok := v.(*Value); ok {
		if p == nil {
			return bytesOfString("null")
		}
		v = *p
	}
	st := v.(structure)
	gen := st[0].(*Term)
	sec, nsec := ex.timeParts(st[1])
	owner := st[2].(string)
	out := []Value{K(8, 'L')}
	out = append(out, ex.be(gen, 8)...)
	out = append(out, ex.be(sec, 8)...)
	out = append(out, ex.be(ex.ts.Resize(nsec, 32, false), 4)...)
	out = append(out, K(8, uint64(len(owner))))
	out = append(out, bytesOfString(owner)...)
	return out
}

func (ex *Exec) leaseDecode(b []Value, dst *Value) iface {
	if len(b) < 22 {
		return ex.newErr("json: unexpected end of input")
	}
	m := b[0].(*Term)
	if !m.IsConst() || m.C != 'L' {
		return ex.newErr("json: invalid character")
	}
	n := b[21].(*Term)
	if !n.IsConst() || len(b) != 22+int(n.C) {
		return ex.newErr("json: invalid length")
	}
	st := (*dst).(structure)
	st[0] = ex.fromBE(b[1:9])
	sec := ex.fromBE(b[9:17])
	nsec := ex.ts.ZExt(ex.fromBE(b[17:21]), 64)
	st[1] = ex.mkTime(sec, nsec)
	st[2] = ex.stringOfBytes(b[22:])
	return iface{}
}

type jsonDec struct{ r iface }

func (ex *Exec) readAllFrom(fr *frame, r iface) ([]Value, iface) {
	var out []Value
	for i := 0; i < 10000; i++ {
		buf := make([]Value, 512)
		for k := range buf {
			buf[k] = K(8, 0)
		}
		res := ex.invoke(fr, r, "Read", buf).(tuple)
		n := int(ex.concreteInt(res[0], "Read n", true))
		out = append(out, buf[:n]...)
		if err := res[1].(iface); err.t != nil {
			if ex.errorsIs(err, ex.ioGlobalErr("io", "EOF"), 0) {
				return out, iface{}
			}
			return out, err
		}
	}
	ex.abort(abBudget, "reader never ends")
	return nil, iface{}
}

func init() {
	extraIntrinsics = append(extraIntrinsics, func(e *Engine) {
		e.reg("bytes.Equal", func(ex *Exec, fr *frame, args []Value) Value {
			a, _ := args[0].([]Value)
			b, _ := args[1].([]Value)
			if len(a) != len(b) {
				return False
			}
			r := True
			for i := range a {
				r = ex.ts.And(r, ex.ts.Eq(a[i].(*Term), b[i].(*Term)))
			}
			return r
		})
		e.reg("encoding/json.Marshal", func(ex *Exec, fr *frame, args []Value) Value {
			it := args[0].(iface)
			if it.t == nil || !isLeaseType(it.t) {
				ex.unsupported("json.Marshal of %v", it.t)
			}
			// the round-trip model stands for encoding/json's reflection-based codec; a
			// type that brings its own MarshalJSON is not described by it
			if ex.findMethod(it.t, "MarshalJSON") != nil {
				ex.unsupported("json.Marshal of %v: the type defines MarshalJSON, which the round-trip model of encoding/json does not execute", it.t)
			}
			return tuple{ex.leaseEncode(it.v), iface{}}
		})
		e.reg("encoding/json.Unmarshal", func(ex *Exec, fr *frame, args []Value) Value {
			it := args[1].(iface)
			if it.t == nil || !isLeaseType(it.t) {
				ex.unsupported("json.Unmarshal into %v", it.t)
			}
			if ex.findMethod(it.t, "UnmarshalJSON") != nil {
				ex.unsupported("json.Unmarshal into %v: the type defines UnmarshalJSON, which the round-trip model of encoding/json does not execute", it.t)
			}
			return ex.leaseDecode(args[0].([]Value), it.v.(*Value))
		})
		e.reg("encoding/json.NewDecoder", func(ex *Exec, fr *frame, args []Value) Value {
			var cell Value = native{obj: &jsonDec{r: args[0].(iface)}}
			return &cell
		})
		e.reg("(*encoding/json.Decoder).Decode", func(ex *Exec, fr *frame, args []Value) Value {
			d := (*args[0].(*Value)).(native).obj.(*jsonDec)
			it := args[1].(iface)
			if it.t == nil || !isLeaseType(it.t) {
				ex.unsupported("json.Decoder.Decode into %v", it.t)
			}
			b, err := ex.readAllFrom(fr, d.r)
			if err.t != nil {
				return err
			}
			return ex.leaseDecode(b, it.v.(*Value))
		})
	})
}
