package main

// io.Pipe (sequential buffer model), crc64 (constant model), lz4 block
// compression (identity model).

import (
	"go/types"
)

type pipeState struct {
	buf     []Value
	wclosed bool
	werr    iface // error readers see once the buffer is drained (nil iface => io.EOF)
	rclosed bool
	rerr    iface // error writers see after the reader closed
}

func (ex *Exec) pipeOf(p Value) *pipeState {
	m, _ := ex.ghost["pipes"].(map[*Value]*pipeState)
	if m == nil {
		ex.unsupported("use of an io.Pipe end that was not created by io.Pipe")
	}
	st := m[p.(*Value)]
	if st == nil {
		ex.unsupported("use of an io.Pipe end that was not created by io.Pipe")
	}
	return st
}

func (ex *Exec) ioGlobalErr(pkg, name string) iface {
	g := ex.eng.globalByName(pkg, name)
	return ex.load(ex.globalAddr(g)).(iface)
}

type nativeHash struct{}

var nativeHashType types.Type = types.NewNamed(types.NewTypeName(0, nil, "gosym.hash64", nil), types.NewStruct(nil, nil), nil)

func (h *nativeHash) callMethod(ex *Exec, name string, args []Value) Value {
	switch name {
	case "Write":
		return tuple{K(64, uint64(len(args[0].([]Value)))), iface{}}
	case "Sum64":
		return K(64, 0)
	case "Sum32":
		return K(32, 0)
	case "Sum":
		return args[0]
	case "Reset":
		return nil
	case "Size":
		return K(64, 8)
	case "BlockSize":
		return K(64, 1)
	}
	ex.unsupported("hash method %s", name)
	return nil
}

func init() {
	extraIntrinsics = append(extraIntrinsics, registerPipe)
}

func registerPipe(e *Engine) {
	e.reg("io.Pipe", func(ex *Exec, fr *frame, args []Value) Value {
		res := fr.fn.Signature.Results()
		var rc Value = zero(deref(res.At(0).Type()))
		var wc Value = zero(deref(res.At(1).Type()))
		m, _ := ex.ghost["pipes"].(map[*Value]*pipeState)
		if m == nil {
			m = map[*Value]*pipeState{}
			ex.ghost["pipes"] = m
		}
		st := &pipeState{}
		m[&rc] = st
		m[&wc] = st
		return tuple{&rc, &wc}
	})
	e.reg("(*io.PipeWriter).Write", func(ex *Exec, fr *frame, args []Value) Value {
		st := ex.pipeOf(args[0])
		if st.wclosed {
			return tuple{K(64, 0), ex.ioGlobalErr("io", "ErrClosedPipe")}
		}
		if st.rclosed {
			err := st.rerr
			if err.t == nil {
				err = ex.ioGlobalErr("io", "ErrClosedPipe")
			}
			return tuple{K(64, 0), err}
		}
		p := args[1].([]Value)
		for _, b := range p {
			st.buf = append(st.buf, b)
		}
		return tuple{K(64, uint64(len(p))), iface{}}
	})
	closeW := func(ex *Exec, st *pipeState, err iface) {
		if !st.wclosed {
			st.wclosed = true
			st.werr = err
		}
	}
	e.reg("(*io.PipeWriter).Close", func(ex *Exec, fr *frame, args []Value) Value {
		closeW(ex, ex.pipeOf(args[0]), iface{})
		return iface{}
	})
	e.reg("(*io.PipeWriter).CloseWithError", func(ex *Exec, fr *frame, args []Value) Value {
		closeW(ex, ex.pipeOf(args[0]), args[1].(iface))
		return iface{}
	})
	e.reg("(*io.PipeReader).Read", func(ex *Exec, fr *frame, args []Value) Value {
		st := ex.pipeOf(args[0])
		p := args[1].([]Value)
		if st.rclosed {
			return tuple{K(64, 0), ex.ioGlobalErr("io", "ErrClosedPipe")}
		}
		if len(st.buf) > 0 {
			n := copy(p, st.buf)
			st.buf = st.buf[n:]
			return tuple{K(64, uint64(n)), iface{}}
		}
		if st.wclosed {
			if st.werr.t == nil {
				return tuple{K(64, 0), ex.ioGlobalErr("io", "EOF")}
			}
			return tuple{K(64, 0), st.werr}
		}
		if len(p) == 0 {
			return tuple{K(64, 0), iface{}}
		}
		ex.unsupported("io.Pipe read would block (sequential model: the writer has not finished)")
		return nil
	})
	closeR := func(ex *Exec, st *pipeState, err iface) {
		if !st.rclosed {
			st.rclosed = true
			st.rerr = err
		}
	}
	e.reg("(*io.PipeReader).Close", func(ex *Exec, fr *frame, args []Value) Value {
		closeR(ex, ex.pipeOf(args[0]), iface{})
		return iface{}
	})
	e.reg("(*io.PipeReader).CloseWithError", func(ex *Exec, fr *frame, args []Value) Value {
		closeR(ex, ex.pipeOf(args[0]), args[1].(iface))
		return iface{}
	})

	// crc64: constant model (corruption detection is trusted, not decided here)
	e.reg("hash/crc64.New", func(ex *Exec, fr *frame, args []Value) Value {
		return iface{t: nativeHashType, v: &nativeHash{}}
	})
	e.reg("hash/crc64.MakeTable", func(ex *Exec, fr *frame, args []Value) Value {
		return (*Value)(nil)
	})
	e.reg("hash/crc64.Checksum", func(ex *Exec, fr *frame, args []Value) Value { return K(64, 0) })
	e.reg("hash/crc64.Update", func(ex *Exec, fr *frame, args []Value) Value { return K(64, 0) })
	e.reg("hash/crc32.ChecksumIEEE", func(ex *Exec, fr *frame, args []Value) Value { return K(32, 0) })

	// lz4 block compression: identity model
	const lz4p = "github.com/pierrec/lz4/v4"
	e.reg("(*"+lz4p+".Compressor).CompressBlock", func(ex *Exec, fr *frame, args []Value) Value {
		src := args[1].([]Value)
		dst := args[2].([]Value)
		if len(dst) < len(src) {
			return tuple{K(64, 0), ex.newErr("lz4: destination too small")}
		}
		copy(dst, src)
		return tuple{K(64, uint64(len(src))), iface{}}
	})
	e.reg(lz4p+".CompressBlock", func(ex *Exec, fr *frame, args []Value) Value {
		src := args[0].([]Value)
		dst := args[1].([]Value)
		if len(dst) < len(src) {
			return tuple{K(64, 0), ex.newErr("lz4: destination too small")}
		}
		copy(dst, src)
		return tuple{K(64, uint64(len(src))), iface{}}
	})
	e.reg(lz4p+".UncompressBlock", func(ex *Exec, fr *frame, args []Value) Value {
		src := args[0].([]Value)
		dst := args[1].([]Value)
		if len(dst) < len(src) {
			return tuple{K(64, 0), ex.newErr("lz4: invalid source or destination buffer too short")}
		}
		copy(dst, src)
		return tuple{K(64, uint64(len(src))), iface{}}
	})
	e.reg(lz4p+".CompressBlockBound", func(ex *Exec, fr *frame, args []Value) Value {
		n := args[0].(*Term)
		return ex.ts.Bin(OpAdd, n, K(64, 16))
	})
	e.reg(lz4p+".NewReader", func(ex *Exec, fr *frame, args []Value) Value {
		var cell Value = zero(deref(fr.fn.Signature.Results().At(0).Type()))
		return &cell
	})
	e.reg(lz4p+".NewWriter", func(ex *Exec, fr *frame, args []Value) Value {
		var cell Value = zero(deref(fr.fn.Signature.Results().At(0).Type()))
		return &cell
	})
}
