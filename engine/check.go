package main

// The check driver: gosym check <property> quick|thorough
//                   gosym check replay <property> <file>

import (
	"crypto/sha256"
	"encoding/hex"
	"encoding/json"
	"fmt"
	"os"
	"os/exec"
	"path/filepath"
	"regexp"
	"sort"
	"strconv"
	"strings"
	"time"

	"golang.org/x/tools/go/ssa"
)

// verifRoot is the directory the check was started in (the ./check script changes
// into its own directory first), so a snapshot of /verif works on its own files.
var verifRoot = func() string {
	if d, err := os.Getwd(); err == nil {
		if _, err := os.Stat(filepath.Join(d, "harness")); err == nil {
			return d
		}
	}
	return "/verif"
}()

type GroupSpec struct {
	Pkg  string `json:"pkg"`  // package directory relative to the repository
	HDir string `json:"hdir"` // harness directory relative to /verif
	Tags string `json:"tags"`
}

type RunSpec struct {
	Group    string           `json:"group"`
	Func     string           `json:"func"`
	Quick    map[string]int64 `json:"quick"`
	Thorough map[string]int64 `json:"thorough"`
	Tier     string           `json:"tier"` // "" both, "quick", "thorough"
	Note     string           `json:"note"`
}

type PropSpec struct {
	Level       string    `json:"level"`
	Runs        []RunSpec `json:"runs"`
	Assumptions []string  `json:"assumptions"`
	Stubs       []string  `json:"stubs"`
	Outside     []string  `json:"outside"`
	Validate    int       `json:"validate"`     // passing paths to validate natively per run (quick)
	UnreachedOK []string  `json:"unreached_ok"` // labels of shared helpers that belong to modes this property does not run
}

type Spec struct {
	Repo       string                `json:"repo"`
	Groups     map[string]*GroupSpec `json:"groups"`
	Properties map[string]*PropSpec  `json:"properties"`
	Rewrites   []RewriteSpec         `json:"rewrites"`
}

type KnownFinding struct {
	ID       string `json:"id"`
	Property string `json:"property"`
	Status   string `json:"status"` // "known" | "fixed"
	Harness  string `json:"harness"`
	Label    string `json:"label"`
	What     string `json:"what"`
	Commit   string `json:"commit,omitempty"`
}

type KnownFile struct {
	Findings []KnownFinding `json:"findings"`
	Lines    []string       `json:"fixed_lines"`
}

func loadSpec() (*Spec, error) {
	data, err := os.ReadFile(filepath.Join(verifRoot, "harness", "spec.gen.json"))
	if err != nil {
		return nil, err
	}
	var s Spec
	if err := json.Unmarshal(data, &s); err != nil {
		return nil, fmt.Errorf("spec.json: %v", err)
	}
	if s.Repo == "" {
		s.Repo = "/repo"
	}
	if r := os.Getenv("VERIF_REPO"); r != "" {
		s.Repo = r
	}
	return &s, nil
}

// evidenceDir is /verif/evidence unless VERIF_EVIDENCE redirects it (used when a
// check is pointed at a scratch tree with a seeded change, so the committed
// evidence of the unchanged tree is not overwritten).
func evidenceDir() string {
	if d := os.Getenv("VERIF_EVIDENCE"); d != "" {
		return d
	}
	return filepath.Join(verifRoot, "evidence")
}

func loadKnown() *KnownFile {
	var k KnownFile
	data, err := os.ReadFile(filepath.Join(verifRoot, "known_findings.json"))
	if err == nil {
		json.Unmarshal(data, &k)
	}
	return &k
}

// harnessOverlay returns every harness file of every group mapped into the repository.
func harnessOverlay(s *Spec) (map[string]string, error) {
	fm := map[string]string{}
	vxs, _ := os.ReadDir(filepath.Join(verifRoot, "vx"))
	for _, e := range vxs {
		if strings.HasSuffix(e.Name(), ".go") {
			fm["internal/vx/"+e.Name()] = filepath.Join(verifRoot, "vx", e.Name())
		}
	}
	for _, g := range s.Groups {
		ents, err := os.ReadDir(filepath.Join(verifRoot, g.HDir))
		if err != nil {
			return nil, err
		}
		for _, e := range ents {
			if strings.HasSuffix(e.Name(), ".go") {
				fm[filepath.Join(g.Pkg, e.Name())] = filepath.Join(verifRoot, g.HDir, e.Name())
			}
		}
	}
	// Environment cut points: a function of the repository that stands for an
	// external machine (SQLite) is renamed in an overlaid copy of its file, and the
	// harness package supplies the stand-in under the original name. The copy is
	// regenerated from the current tree on every run; if the pattern is not found
	// exactly once the check is inconclusive.
	for _, rw := range s.Rewrites {
		src := filepath.Join(s.Repo, rw.File)
		data, err := os.ReadFile(src)
		if err != nil {
			return nil, err
		}
		if n := strings.Count(string(data), rw.From); n != 1 {
			return nil, fmt.Errorf("rewrite of %s: pattern %q found %d times (need exactly 1)", rw.File, rw.From, n)
		}
		if rewriteDir == "" {
			d, err := os.MkdirTemp("", "gosym-rw-")
			if err != nil {
				return nil, err
			}
			rewriteDir = d
		}
		var cur []byte
		dst := filepath.Join(rewriteDir, sanitize(rw.File))
		if prev, ok := fm[rw.File]; ok {
			cur, _ = os.ReadFile(prev)
		} else {
			cur = data
		}
		out := strings.Replace(string(cur), rw.From, rw.To, 1)
		if err := os.WriteFile(dst, []byte(out), 0o644); err != nil {
			return nil, err
		}
		fm[rw.File] = dst
	}
	return fm, nil
}

var rewriteDir string

func cleanupRewrites() {
	if rewriteDir != "" {
		os.RemoveAll(rewriteDir)
		rewriteDir = ""
	}
}

type RewriteSpec struct {
	File string `json:"file"` // relative to the repository
	From string `json:"from"`
	To   string `json:"to"`
}

type runResult struct {
	spec   RunSpec
	params map[string]int64
	rep    *HarnessReport
	eng    *Engine
	h      *ssa.Function
}

type replayFile struct {
	Harness  string            `json:"harness"`
	Group    string            `json:"group"`
	Property string            `json:"property"`
	Inputs   map[string]uint64 `json:"inputs"`
	Failed   string            `json:"failed,omitempty"`
	Kind     string            `json:"kind,omitempty"`
	Known    string            `json:"known,omitempty"`
	Detail   string            `json:"detail,omitempty"`
	Observed []string          `json:"observed,omitempty"`
	Params   map[string]int64  `json:"params,omitempty"`
	Tree     string            `json:"tree,omitempty"`
}

type nativeOutcome struct {
	Harness      string   `json:"harness"`
	FailedLabels []string `json:"failed_labels"`
	AssumeFailed bool     `json:"assume_failed"`
	Panic        string   `json:"panic"`
	Observed     []string `json:"observed"`
	Asserts      int      `json:"asserts"`
}

func cmdCheck(args []string) int {
	if len(args) >= 1 && args[0] == "replay" {
		if len(args) != 3 {
			fmt.Fprintln(os.Stderr, "usage: gosym check replay <property> <file>")
			return 2
		}
		return cmdReplay(args[1], args[2])
	}
	if len(args) != 2 {
		fmt.Fprintln(os.Stderr, "usage: gosym check <property> quick|thorough")
		return 2
	}
	prop, tier := args[0], args[1]
	if tier != "quick" && tier != "thorough" {
		fmt.Fprintln(os.Stderr, "tier must be quick or thorough")
		return 2
	}
	t0 := time.Now()
	seed, _ := strconv.ParseInt(os.Getenv("VERIF_SEED"), 10, 64)
	spec, err := loadSpec()
	if err != nil {
		fmt.Fprintln(os.Stderr, err)
		return 2
	}
	ps := spec.Properties[prop]
	if ps == nil {
		fmt.Fprintln(os.Stderr, "no check registered for", prop)
		return 2
	}
	known := loadKnown()
	activeKnown := map[string]KnownFinding{}
	for _, k := range known.Findings {
		if k.Property == prop && k.Status == "known" {
			activeKnown[k.ID] = k
		}
	}
	fm, err := harnessOverlay(spec)
	if err != nil {
		fmt.Fprintln(os.Stderr, err)
		return 2
	}
	ov, err := overlayFor(spec.Repo, fm)
	if err != nil {
		fmt.Fprintln(os.Stderr, err)
		return 2
	}

	scratch, err := os.MkdirTemp("", "gosym-")
	if err != nil {
		fmt.Fprintln(os.Stderr, err)
		return 2
	}
	defer os.RemoveAll(scratch)

	// group runs by (group) so each package is loaded once
	var runs []RunSpec
	for _, r := range ps.Runs {
		if r.Tier != "" && r.Tier != tier {
			continue
		}
		runs = append(runs, r)
	}
	byGroup := map[string][]RunSpec{}
	var groupOrder []string
	for _, r := range runs {
		if _, ok := byGroup[r.Group]; !ok {
			groupOrder = append(groupOrder, r.Group)
		}
		byGroup[r.Group] = append(byGroup[r.Group], r)
	}

	nValidate := ps.Validate
	if nValidate == 0 {
		nValidate = 6
	}
	if tier == "thorough" {
		nValidate *= 5
	}
	teeMax := int64(40)
	if tier == "thorough" {
		teeMax = 400
	}

	var results []runResult
	inconclusive := []string{}
	droppedFiles := false
	funcs := map[string]string{}
	teeDir := filepath.Join(scratch, "tee")
	os.MkdirAll(teeDir, 0o755)
	var solverStats SolverStats

	for _, gname := range groupOrder {
		g := spec.Groups[gname]
		if g == nil {
			fmt.Fprintln(os.Stderr, "unknown group", gname)
			return 2
		}
		pat := "./" + g.Pkg
		eng, err := LoadProgram(LoadConfig{Dir: spec.Repo, Patterns: []string{pat}, Tags: g.Tags, Overlay: ov})
		// Harness files marked "// vx:optional" call internal helpers directly; when a
		// refactor changes such a signature only those files are dropped (their
		// harnesses become inconclusive) and the rest of the property is still decided.
		for attempt := 0; err != nil && attempt < 3; attempt++ {
			dropped := dropOptionalHarnessFiles(err.Error(), spec.Repo, ov, fm)
			if len(dropped) == 0 {
				break
			}
			for _, d := range dropped {
				inconclusive = append(inconclusive, "optional harness file "+d+" does not compile against this tree and was left out")
				droppedFiles = true
			}
			eng, err = LoadProgram(LoadConfig{Dir: spec.Repo, Patterns: []string{pat}, Tags: g.Tags, Overlay: ov})
		}
		if err != nil {
			// A tree on which the harness no longer compiles is inconclusive, never an alarm.
			fmt.Printf("INCONCLUSIVE property=%s harness package does not load: %v\n", prop, err)
			writeEvidenceFailure(prop, tier, seed, ps, "harness package does not load: "+err.Error(), time.Since(t0).Seconds())
			return 2
		}
		eng.overlaySrc = ov
		eng.teeDir, eng.teeMax = teeDir, teeMax
		eng.validateEvery = 5
		for id := range activeKnown {
			eng.knownActive[id] = true
		}
		for _, r := range byGroup[gname] {
			params := r.Quick
			if tier == "thorough" && r.Thorough != nil {
				params = r.Thorough
			}
			eng.params = params
			eng.maxSteps = 20_000_000
			if v, ok := params["_maxsteps"]; ok {
				eng.maxSteps = v
			}
			if v, ok := params["_maxpaths"]; ok {
				eng.maxPaths = v
			}
			h := eng.findHarness(r.Func)
			if h == nil && droppedFiles {
				inconclusive = append(inconclusive, "harness "+r.Func+" is in a file that was left out")
				continue
			}
			if h == nil {
				fmt.Printf("INCONCLUSIVE property=%s no harness function %s\n", prop, r.Func)
				writeEvidenceFailure(prop, tier, seed, ps, "harness function missing: "+r.Func, time.Since(t0).Seconds())
				return 2
			}
			rep := eng.Explore(h, seed, nValidate)
			results = append(results, runResult{spec: r, params: params, rep: rep, eng: eng, h: h})
			for k, v := range rep.Funcs {
				funcs[k] = v
			}
			fmt.Fprintf(os.Stderr, "[%s] %s %v: paths=%d obligations=%d discharged=%d violations=%d unsupported=%d budget=%d inconclusive=%d wall=%.1fs\n",
				prop, r.Func, params, rep.Paths, rep.Obligations, rep.Discharged, len(rep.Violations), len(rep.Unsupported), len(rep.BudgetFails), len(rep.Inconclusive), rep.Wall)
		}
	}
	solverStats = gStats

	// ---- collect engine-side verdicts ----
	type cand struct {
		run  runResult
		v    Violation
		path string
	}
	var cands []cand
	var validations []cand
	reachFail := []string{}
	for _, rr := range results {
		rep := rr.rep
		for _, u := range rep.Unsupported {
			inconclusive = append(inconclusive, rr.spec.Func+": unsupported: "+u)
		}
		for _, u := range rep.BudgetFails {
			inconclusive = append(inconclusive, rr.spec.Func+": unwinding failure: "+u)
		}
		for _, u := range rep.Inconclusive {
			inconclusive = append(inconclusive, rr.spec.Func+": "+u)
		}
		if rep.Truncated {
			inconclusive = append(inconclusive, rr.spec.Func+": path budget exhausted")
		}
		// vacuity: every assertion label of the harness must have been reached
		// (labels that only concern other modes are declared by reaching them in no
		// run at all; the union over runs of one property is what counts)
		seen := map[string]int{}
		for _, v := range rep.Violations {
			key := v.Label + "|" + v.Known
			if seen[key] >= 2 {
				continue
			}
			seen[key]++
			cands = append(cands, cand{run: rr, v: v})
		}
		for _, vm := range rep.ValidationModels {
			inputs, _ := vm["inputs"].(map[string]uint64)
			obs, _ := vm["observed"].([]string)
			if usesInjection(inputs) {
				continue // the native process cannot be made to fail a syscall or die on cue
			}
			validations = append(validations, cand{run: rr, v: Violation{Inputs: inputs, Observed: obs, Kind: "validate"}})
		}
	}
	// reach witnesses: union over runs
	allLabels := map[string]bool{}
	reached := map[string]int{}
	for _, rr := range results {
		for _, l := range rr.rep.Labels {
			allLabels[rr.spec.Func+":"+l] = true
		}
		for l, n := range rr.rep.Reached {
			reached[rr.spec.Func+":"+l] += n
		}
	}
	// a label is considered reached if any run of a harness sharing the helper reached it
	labelReachedAnywhere := map[string]bool{}
	for k, n := range reached {
		if n > 0 {
			labelReachedAnywhere[k[strings.Index(k, ":")+1:]] = true
		}
	}
	for k := range allLabels {
		l := k[strings.Index(k, ":")+1:]
		okSkip := false
		for _, u := range ps.UnreachedOK {
			if u == l {
				okSkip = true
			}
		}
		if !labelReachedAnywhere[l] && !okSkip {
			reachFail = append(reachFail, l)
		}
	}
	sort.Strings(reachFail)
	reachFail = uniq(reachFail)

	// ---- native replay: violations first, then validation of passing paths ----
	replayDir := filepath.Join(verifRoot, "replays", prop)
	if d := os.Getenv("VERIF_REPLAYS"); d != "" {
		replayDir = filepath.Join(d, prop)
	}
	tree := treeID(spec.Repo)
	writeReplay := func(dir string, c *cand) error {
		rf := replayFile{Harness: c.run.spec.Func, Group: c.run.spec.Group, Property: prop, Inputs: c.v.Inputs,
			Failed: c.v.Label, Kind: c.v.Kind, Known: c.v.Known, Detail: c.v.Detail, Observed: c.v.Observed, Params: c.run.params, Tree: tree}
		if rf.Inputs == nil {
			rf.Inputs = map[string]uint64{}
		}
		data, _ := json.MarshalIndent(rf, "", " ")
		sum := sha256.Sum256(data)
		name := fmt.Sprintf("%s-%s-%s.json", c.run.spec.Func, sanitize(c.v.Label), hex.EncodeToString(sum[:5]))
		c.path = filepath.Join(dir, name)
		os.MkdirAll(dir, 0o755)
		return os.WriteFile(c.path, data, 0o644)
	}
	violDir := filepath.Join(scratch, "viol")
	valDir := filepath.Join(scratch, "val")
	for i := range cands {
		if err := writeReplay(violDir, &cands[i]); err != nil {
			fmt.Fprintln(os.Stderr, err)
			return 2
		}
	}
	for i := range validations {
		validations[i].v.Label = fmt.Sprintf("validate%d", i)
		if err := writeReplay(valDir, &validations[i]); err != nil {
			fmt.Fprintln(os.Stderr, err)
			return 2
		}
	}
	mismatches := []string{}
	confirmed := []cand{}
	validated := 0
	nativeErr := ""
	// Counterexamples that depend on an injected file-system fault or a kill point are
	// confirmed by concrete re-execution of the real SSA in the engine (every input
	// fixed to the model's value): a native process cannot be made to fail a system
	// call or to die at a chosen instant without ptrace.
	var nativeCands []cand
	for _, c := range cands {
		if !usesInjection(c.v.Inputs) && !c.v.Ghost {
			nativeCands = append(nativeCands, c)
			continue
		}
		pr, err := c.run.eng.ReplayConcrete(c.run.h, c.v.Inputs)
		ok := false
		if err == nil {
			if c.v.Kind == "panic" {
				ok = pr.Panicked != ""
			}
			for _, v := range pr.Violations {
				if v.Label == c.v.Label {
					ok = true
				}
			}
		}
		if ok {
			c.v.Detail = strings.TrimSpace(c.v.Detail + " [confirmed by concrete re-execution of the real SSA with the model's inputs; depends on an injected fault, a kill point or the durability ghost state of the file-system model]")
			confirmed = append(confirmed, c)
		} else {
			mismatches = append(mismatches, fmt.Sprintf("%s label=%s: solver model does not reproduce in concrete re-execution", c.run.spec.Func, c.v.Label))
		}
	}
	cands = nativeCands
	groupsUsed := map[string]bool{}
	for _, c := range cands {
		groupsUsed[c.run.spec.Group] = true
	}
	for _, c := range validations {
		groupsUsed[c.run.spec.Group] = true
	}
	outcomes := map[string]*nativeOutcome{}
	for gname := range groupsUsed {
		g := spec.Groups[gname]
		var files []string
		for _, c := range cands {
			if c.run.spec.Group == gname {
				files = append(files, c.path)
			}
		}
		for _, c := range validations {
			if c.run.spec.Group == gname {
				files = append(files, c.path)
			}
		}
		outs, err := nativeReplay(spec, g, fm, scratch, files)
		if err != nil {
			nativeErr = err.Error()
			break
		}
		for k, v := range outs {
			outcomes[k] = v
		}
	}
	if nativeErr != "" {
		inconclusive = append(inconclusive, "native replay failed: "+nativeErr)
	} else {
		for _, c := range cands {
			o := outcomes[c.path]
			if o == nil {
				mismatches = append(mismatches, c.path+": no native outcome")
				continue
			}
			ok := false
			if c.v.Kind == "panic" {
				ok = o.Panic != ""
			} else {
				for _, l := range o.FailedLabels {
					if l == c.v.Label {
						ok = true
					}
				}
			}
			// The native run stops at the first failed assumption, so a label it
			// recorded failed before that point; inputs drawn after the violation
			// are not part of the solver's model (they read as 0 natively and may
			// fall outside a Choose range), which cannot retract the failure.
			if ok {
				confirmed = append(confirmed, c)
			} else {
				mismatches = append(mismatches, fmt.Sprintf("%s label=%s: solver model does not reproduce natively (failed=%v assume_failed=%v panic=%q)",
					c.run.spec.Func, c.v.Label, o.FailedLabels, o.AssumeFailed, o.Panic))
			}
		}
		for _, c := range validations {
			o := outcomes[c.path]
			if o == nil {
				mismatches = append(mismatches, c.path+": no native outcome (validation)")
				continue
			}
			if o.AssumeFailed || len(o.FailedLabels) > 0 || o.Panic != "" {
				mismatches = append(mismatches, fmt.Sprintf("%s: passing path does not pass natively (failed=%v assume_failed=%v panic=%q) inputs=%v",
					c.run.spec.Func, o.FailedLabels, o.AssumeFailed, o.Panic, c.v.Inputs))
				continue
			}
			if !sameObs(c.v.Observed, o.Observed) {
				mismatches = append(mismatches, fmt.Sprintf("%s: observations differ: engine=%v native=%v inputs=%v", c.run.spec.Func, c.v.Observed, o.Observed, c.v.Inputs))
				continue
			}
			validated++
		}
	}

	// ---- cross-solver agreement on the teed sample ----
	cross := crossCheck(teeDir)
	for name, cs := range cross {
		if cs.Disagreements > 0 {
			inconclusive = append(inconclusive, fmt.Sprintf("solver disagreement with %s on %d queries", name, cs.Disagreements))
		}
	}

	// ---- verdict ----
	exit := 0
	newViol := 0
	knownSeen := map[string]bool{}
	for _, c := range confirmed {
		if c.v.Known != "" {
			knownSeen[c.v.Known] = true
			continue
		}
		newViol++
		os.MkdirAll(replayDir, 0o755)
		dst := filepath.Join(replayDir, filepath.Base(c.path))
		data, _ := os.ReadFile(c.path)
		os.WriteFile(dst, data, 0o644)
		fmt.Printf("VIOLATION property=%s replay=%s\n", prop, dst)
		fmt.Printf("  harness=%s assertion=%s %s\n", c.run.spec.Func, c.v.Label, c.v.Detail)
		exit = 1
	}
	for id := range knownSeen {
		k := activeKnown[id]
		fmt.Printf("KNOWN-FINDING: property=%s %s: %s\n", prop, id, k.What)
	}
	for id, k := range activeKnown {
		if !knownSeen[id] {
			fmt.Printf("NOTE: known finding %s (%s) was not reproduced in this run\n", id, k.What)
		}
	}
	for _, m := range mismatches {
		fmt.Printf("ENCODING-MISMATCH property=%s %s\n", prop, m)
	}
	if exit == 0 && (len(mismatches) > 0 || len(inconclusive) > 0 || len(reachFail) > 0) {
		exit = 2
		for _, m := range inconclusive {
			fmt.Printf("INCONCLUSIVE property=%s %s\n", prop, firstLine(m))
		}
		for _, l := range reachFail {
			fmt.Printf("INCONCLUSIVE property=%s assertion %q never reached (vacuous harness)\n", prop, l)
		}
	}

	// ---- evidence ----
	ev := buildEvidence(prop, tier, seed, ps, results, funcs, validated, len(validations), cross, solverStats,
		newViol, knownSeen, mismatches, inconclusive, reachFail, time.Since(t0).Seconds())
	if err := writeJSON(filepath.Join(evidenceDir(), prop+".json"), ev); err != nil {
		fmt.Fprintln(os.Stderr, err)
		return 2
	}
	if exit == 0 {
		fmt.Printf("OK property=%s tier=%s paths=%v obligations=%v validated=%d wall=%.0fs\n", prop, tier,
			ev["coverage"].(map[string]any)["states"], ev["coverage"].(map[string]any)["obligations"], validated, time.Since(t0).Seconds())
	}
	return exit
}

// usesInjection reports whether a model switches on a file-system fault or a kill point.
func usesInjection(inputs map[string]uint64) bool {
	for k, v := range inputs {
		if v != 0 && (strings.HasPrefix(k, "fsfault:") || strings.HasPrefix(k, "crash#") || strings.HasPrefix(k, "sqlfault:")) {
			return true
		}
	}
	return false
}

func firstLine(s string) string {
	if i := strings.IndexByte(s, '\n'); i >= 0 {
		return s[:i]
	}
	return s
}

func uniq(a []string) []string {
	var out []string
	for i, s := range a {
		if i == 0 || s != a[i-1] {
			out = append(out, s)
		}
	}
	return out
}

func sanitize(s string) string {
	var sb strings.Builder
	for _, r := range s {
		if r >= 'a' && r <= 'z' || r >= 'A' && r <= 'Z' || r >= '0' && r <= '9' || r == '-' || r == '_' {
			sb.WriteRune(r)
		} else {
			sb.WriteByte('_')
		}
	}
	return sb.String()
}

func sameObs(a, b []string) bool {
	if len(a) != len(b) {
		return false
	}
	for i := range a {
		if a[i] != b[i] && !strings.HasSuffix(a[i], "=?") {
			return false
		}
	}
	return true
}

func treeID(repo string) string {
	out, err := exec.Command("git", "-C", repo, "rev-parse", "--short", "HEAD").Output()
	id := strings.TrimSpace(string(out))
	if err != nil {
		id = "unknown"
	}
	st, _ := exec.Command("git", "-C", repo, "status", "--porcelain").Output()
	if len(strings.TrimSpace(string(st))) > 0 {
		sum := sha256.Sum256(st)
		id += "+dirty-" + hex.EncodeToString(sum[:3])
	}
	return id
}

func writeJSON(path string, v any) error {
	os.MkdirAll(filepath.Dir(path), 0o755)
	data, err := json.MarshalIndent(v, "", " ")
	if err != nil {
		return err
	}
	return os.WriteFile(path, append(data, '\n'), 0o644)
}

func goEnv() []string {
	var env []string
	for _, e := range os.Environ() {
		if strings.HasPrefix(e, "GOFLAGS=") || strings.HasPrefix(e, "GOTOOLCHAIN=") || strings.HasPrefix(e, "GOSUMDB=") || strings.HasPrefix(e, "GOPROXY=") {
			continue
		}
		env = append(env, e)
	}
	return append(env, "GOFLAGS=-mod=mod", "GOPROXY=off", "GOTOOLCHAIN=auto")
}

// nativeReplay compiles the harness package with the real toolchain (overlay
// only; the repository is not modified) and runs the given replay files.
func nativeReplay(spec *Spec, g *GroupSpec, fm map[string]string, scratch string, files []string) (map[string]*nativeOutcome, error) {
	if len(files) == 0 {
		return nil, nil
	}
	pkgDir := filepath.Join(spec.Repo, g.Pkg)
	// package name from the first harness file
	pkgName := ""
	var harnessFuncs []string
	for dst, src := range fm {
		if filepath.Dir(filepath.Join(spec.Repo, dst)) != filepath.Clean(pkgDir) {
			continue
		}
		data, err := os.ReadFile(src)
		if err != nil {
			return nil, err
		}
		// a harness file under a build constraint belongs only to groups built with that tag
		if strings.HasPrefix(string(data), "//go:build ") {
			tag := strings.TrimSpace(strings.TrimPrefix(strings.SplitN(string(data), "\n", 2)[0], "//go:build "))
			if !strings.Contains(","+g.Tags+",", ","+tag+",") {
				continue
			}
		}
		for _, line := range strings.Split(string(data), "\n") {
			if strings.HasPrefix(line, "package ") && pkgName == "" {
				pkgName = strings.TrimSpace(strings.TrimPrefix(line, "package "))
			}
			if strings.HasPrefix(line, "func Vx") && strings.Contains(line, "() {") {
				name := strings.TrimPrefix(line, "func ")
				name = name[:strings.Index(name, "(")]
				harnessFuncs = append(harnessFuncs, name)
			}
		}
	}
	sort.Strings(harnessFuncs)
	var sb strings.Builder
	fmt.Fprintf(&sb, "package %s\n\nimport (\n\t\"encoding/json\"\n\t\"os\"\n\t\"strings\"\n\t\"testing\"\n\n\t\"github.com/benbjohnson/litestream/internal/vx\"\n", pkgName)
	if strings.Contains(g.Tags, "vfs") {
		sb.WriteString("\t_ \"github.com/mattn/go-sqlite3\"\n")
	}
	sb.WriteString(")\n\nfunc TestVxReplay(t *testing.T) {\n\tfns := map[string]func(){\n")
	for _, f := range harnessFuncs {
		fmt.Fprintf(&sb, "\t\t%q: %s,\n", f, f)
	}
	sb.WriteString(`	}
	for _, path := range strings.Split(os.Getenv("VX_REPLAY_FILES"), ":") {
		if path == "" {
			continue
		}
		out, err := vx.RunFile(path, fns)
		if err != nil {
			t.Fatalf("%s: %v", path, err)
		}
		data, _ := json.Marshal(out)
		if err := os.WriteFile(path+".out", data, 0o644); err != nil {
			t.Fatal(err)
		}
	}
}
`)
	testFile := filepath.Join(scratch, "zz_verif_replay_"+sanitize(g.Pkg)+"_test.go")
	if err := os.WriteFile(testFile, []byte(sb.String()), 0o644); err != nil {
		return nil, err
	}
	replace := map[string]string{}
	for dst, src := range fm {
		replace[filepath.Join(spec.Repo, dst)] = src
	}
	replace[filepath.Join(pkgDir, "zz_verif_replay_test.go")] = testFile
	// drop the package's own tests from the build: they are irrelevant here and
	// some do not compile under every tag set
	ents, _ := os.ReadDir(pkgDir)
	for _, e := range ents {
		if strings.HasSuffix(e.Name(), "_test.go") {
			replace[filepath.Join(pkgDir, e.Name())] = ""
		}
	}
	ovData, _ := json.Marshal(map[string]any{"Replace": replace})
	ovFile := filepath.Join(scratch, "overlay-"+sanitize(g.Pkg)+".json")
	if err := os.WriteFile(ovFile, ovData, 0o644); err != nil {
		return nil, err
	}
	args := []string{"test", "-vet=off", "-count=1", "-overlay", ovFile, "-run", "^TestVxReplay$", "-timeout", "20m"}
	if g.Tags != "" {
		args = append(args, "-tags", g.Tags)
	}
	args = append(args, ".")
	cmd := exec.Command("go", args...)
	cmd.Dir = pkgDir
	cmd.Env = append(goEnv(), "VX_REPLAY_FILES="+strings.Join(files, ":"))
	out, err := cmd.CombinedOutput()
	if err != nil {
		return nil, fmt.Errorf("go test failed: %v\n%s", err, tail(string(out), 3000))
	}
	res := map[string]*nativeOutcome{}
	for _, f := range files {
		data, err := os.ReadFile(f + ".out")
		if err != nil {
			return nil, fmt.Errorf("no outcome for %s", f)
		}
		var o nativeOutcome
		if err := json.Unmarshal(data, &o); err != nil {
			return nil, err
		}
		res[f] = &o
	}
	return res, nil
}

func tail(s string, n int) string {
	if len(s) > n {
		return s[len(s)-n:]
	}
	return s
}

type crossStat struct {
	Queries       int `json:"queries"`
	Disagreements int `json:"disagreements"`
	Unknown       int `json:"unknown"`
}

// crossCheck re-decides the teed queries with z3-new and cvc5.
func crossCheck(dir string) map[string]*crossStat {
	res := map[string]*crossStat{}
	files, _ := filepath.Glob(filepath.Join(dir, "*.smt2"))
	if len(files) == 0 {
		return res
	}
	solvers := []struct {
		name string
		args []string
	}{
		{"z3-new", []string{"z3-new", "-T:20"}},
		{"cvc5", []string{"cvc5", "--tlimit=20000"}},
	}
	for _, s := range solvers {
		if _, err := exec.LookPath(s.args[0]); err != nil {
			continue
		}
		cs := &crossStat{}
		res[s.name] = cs
		type job struct{ f string }
		ch := make(chan string)
		done := make(chan [2]string)
		for w := 0; w < 8; w++ {
			go func() {
				for f := range ch {
					out, _ := exec.Command(s.args[0], append(s.args[1:], f)...).CombinedOutput()
					done <- [2]string{f, string(out)}
				}
			}()
		}
		go func() {
			for _, f := range files {
				ch <- f
			}
			close(ch)
		}()
		for range files {
			r := <-done
			data, _ := os.ReadFile(r[0])
			expect := ""
			if strings.HasPrefix(string(data), "; expect ") {
				expect = strings.TrimSpace(strings.SplitN(string(data), "\n", 2)[0][len("; expect "):])
			}
			got := ""
			for _, l := range strings.Split(r[1], "\n") {
				l = strings.TrimSpace(l)
				if l == "sat" || l == "unsat" || l == "unknown" {
					got = l
				}
			}
			cs.Queries++
			switch {
			case got == "" || got == "unknown" || expect == "unknown":
				cs.Unknown++
			case got != expect:
				cs.Disagreements++
			}
		}
	}
	return res
}

func writeEvidenceFailure(prop, tier string, seed int64, ps *PropSpec, reason string, wall float64) {
	ev := map[string]any{
		"property_id": prop, "tier": tier, "seed": seed, "level": "other",
		"coverage":    map[string]any{"explanation": "check was inconclusive: " + reason, "evaluations": 0, "distinct_nontrivial": 0},
		"assumptions": ps.Assumptions, "wall_s": wall, "violations": 0,
	}
	writeJSON(filepath.Join(evidenceDir(), prop+".json"), ev)
}

func buildEvidence(prop, tier string, seed int64, ps *PropSpec, results []runResult, funcs map[string]string,
	validated, validationsTried int, cross map[string]*crossStat, st SolverStats, newViol int, knownSeen map[string]bool,
	mismatches, inconclusive, reachFail []string, wall float64) map[string]any {

	var states, transitions, obligations, discharged, steps, nmul int64
	var samples []any
	bounds := map[string]any{}
	reach := map[string]int{}
	var perRun []any
	for _, rr := range results {
		rep := rr.rep
		states += rep.Completed
		transitions += rep.Decisions
		obligations += rep.Obligations
		discharged += rep.Discharged
		steps += rep.Steps
		nmul += rep.NMulSym
		bounds[rr.spec.Func] = rr.params
		for l, n := range rep.Reached {
			reach[rr.spec.Func+":"+l] += n
		}
		for i, s := range rep.Samples {
			if i < 2 {
				s["harness"] = rr.spec.Func
				samples = append(samples, s)
			}
		}
		perRun = append(perRun, map[string]any{
			"harness": rr.spec.Func, "params": rr.params, "paths": rep.Paths, "completed": rep.Completed,
			"infeasible_ends": rep.Infeasible, "obligations": rep.Obligations, "discharged": rep.Discharged,
			"branch_decisions": rep.Decisions, "max_path_instructions": rep.MaxSteps, "wall_s": rep.Wall,
			"panic_paths": rep.Panics, "note": rr.spec.Note,
		})
	}
	if len(samples) == 0 {
		samples = append(samples, "no completed path")
	}
	var fnames []string
	for k := range funcs {
		fnames = append(fnames, k)
	}
	sort.Strings(fnames)
	var fenc []any
	for _, k := range fnames {
		fenc = append(fenc, map[string]string{"name": k, "src": funcs[k]})
	}
	kn := []string{}
	for id := range knownSeen {
		kn = append(kn, id)
	}
	sort.Strings(kn)
	level := ps.Level
	if level == "" {
		level = "model_checking"
	}
	cov := map[string]any{
		"states": states, "transitions": transitions, "traces_validated_against_impl": validated,
		"traces_validation_attempted": validationsTried,
		"samples":                     samples, "obligations": obligations, "discharged": discharged,
		"exhaustive":        len(inconclusive) == 0 && len(reachFail) == 0,
		"functions_encoded": fenc, "bounds": bounds, "reach_witnesses": reach,
		"unwinding_failures": countPrefix(inconclusive, "unwinding failure"),
		"solver":             "z3 4.8.12 (incremental, one process per worker; unknown results re-decided one-shot)",
		"solver_time_s":      float64(st.Nanos) / 1e9, "queries": st.Queries, "queries_sat": st.SatN, "queries_unsat": st.UnsatN,
		"queries_unknown": st.UnknownN, "solver_errors": st.Errors, "oneshot_fallbacks": st.Fallbacks, "models_rejected_by_evaluation": st.BadModels,
		"cross_solvers": cross, "stubs": ps.Stubs, "outside_claim": ps.Outside, "runs": perRun,
		"interpreted_instructions": steps, "symbolic_mul_div": nmul,
		"known_findings_reproduced": kn, "encoding_mismatches": mismatches, "inconclusive": inconclusive, "unreached_assertions": reachFail,
		"evaluations": states, "distinct_nontrivial": states,
		"rule":        "one evaluation = one completed symbolic path of a harness over the real SSA of /repo; paths are distinct by construction (distinct decision sequences) and each one reached at least one obligation or ended in a checked assumption",
		"checker_cmd": fmt.Sprintf("./check %s %s", prop, tier),
	}
	return map[string]any{
		"property_id": prop, "tier": tier, "seed": seed, "level": level, "coverage": cov,
		"assumptions": ps.Assumptions, "wall_s": wall, "violations": newViol,
	}
}

func countPrefix(a []string, sub string) int {
	n := 0
	for _, s := range a {
		if strings.Contains(s, sub) {
			n++
		}
	}
	return n
}

// cmdReplay runs one replay file natively and reports whether the recorded
// assertion fails.
func cmdReplay(prop, path string) int {
	spec, err := loadSpec()
	if err != nil {
		fmt.Fprintln(os.Stderr, err)
		return 2
	}
	data, err := os.ReadFile(path)
	if err != nil {
		fmt.Fprintln(os.Stderr, err)
		return 2
	}
	var rf replayFile
	if err := json.Unmarshal(data, &rf); err != nil {
		fmt.Fprintln(os.Stderr, err)
		return 2
	}
	g := spec.Groups[rf.Group]
	if g == nil {
		fmt.Fprintln(os.Stderr, "replay file names unknown group", rf.Group)
		return 2
	}
	fm, err := harnessOverlay(spec)
	if err != nil {
		fmt.Fprintln(os.Stderr, err)
		return 2
	}
	scratch, _ := os.MkdirTemp("", "gosym-replay-")
	defer os.RemoveAll(scratch)
	tmp := filepath.Join(scratch, filepath.Base(path))
	os.WriteFile(tmp, data, 0o644)
	outs, err := nativeReplay(spec, g, fm, scratch, []string{tmp})
	if err != nil {
		fmt.Fprintln(os.Stderr, err)
		return 2
	}
	o := outs[tmp]
	js, _ := json.MarshalIndent(o, "", " ")
	fmt.Println(string(js))
	failed := false
	if rf.Kind == "panic" {
		failed = o.Panic != ""
	}
	for _, l := range o.FailedLabels {
		if l == rf.Failed {
			failed = true
		}
	}
	if failed {
		fmt.Printf("VIOLATION property=%s replay=%s\n", prop, path)
		return 1
	}
	fmt.Println("replay passes on this tree")
	return 0
}

var harnessFileRe = regexp.MustCompile(`zz_verif_[A-Za-z0-9_]+\.go`)

// dropOptionalHarnessFiles removes from the overlay every harness file that is
// named in the load error and is marked optional; it returns their names.
func dropOptionalHarnessFiles(errText, repo string, ov map[string][]byte, fm map[string]string) []string {
	var dropped []string
	seen := map[string]bool{}
	for _, name := range harnessFileRe.FindAllString(errText, -1) {
		if seen[name] {
			continue
		}
		seen[name] = true
		for path, data := range ov {
			if filepath.Base(path) != name || !strings.HasPrefix(string(data), "// vx:optional") {
				continue
			}
			delete(ov, path)
			for dst := range fm {
				if filepath.Join(repo, dst) == path {
					delete(fm, dst)
				}
			}
			dropped = append(dropped, name)
		}
	}
	return dropped
}
