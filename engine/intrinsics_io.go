package main

// File-system model ("symfs") and io helpers.
//
// The tree lives in ex.ghost["fs"]. Harnesses populate it through vx.FS*
// functions; the code under test reaches it through the os / io intrinsics
// below. Every mutating operation is logged (ghost trace) and may be made to
// fail or to be the crash point by the harness.

import (
	"fmt"
	"go/types"
	"sort"
	"strings"
)

type fsNode struct {
	name         string
	isDir        bool
	data         []Value         // file content (byte terms)
	vsize        int             // logical size when larger than len(data): the rest reads as zeros (sparse file)
	patches      map[int][]Value // sparse file: bytes written at an offset beyond len(data)
	vsizeT       *Term           // sparse file whose length is symbolic: only its size can be asked for
	mtime        Value           // time.Time value
	mode         uint32
	dirty        bool // written since last fsync (ghost)
	entriesDirty bool // directory entries changed since last fsync of the directory (ghost)
	complete     bool // ghost: all bytes written and closed (crash consistency)
	openW        int  // open writers
	gen          int  // identity of the inode (renames keep it)
}

type fsState struct {
	nodes     map[string]*fsNode
	ops       int      // count of mutating operations so far
	crashAt   int      // crash immediately before mutating op number crashAt (1-based); 0 = never
	trace     []string // ghost log of operations
	faults    bool     // when true every operation asks vx.Fault whether to fail
	nextGen   int
	strict    bool                // unknown paths are errors (ENOENT) rather than unsupported
	events    []string            // ghost: ordering-rule violations observed ("rename-of-unsynced-file <path>", ...)
	published []string            // names that came into existence by rename, in order
	unlinked  []string            // names removed, in order
	pending   map[string][]string // directory -> names published in it since its last fsync
	guards    map[string]string   // final name -> file that must hold no unflushed writes when that name is published
}

// pendingAny reports names that were renamed into place but whose directory has not been fsynced since.
func (st *fsState) pendingAny() []string {
	var out []string
	for _, names := range st.pending {
		out = append(out, names...)
	}
	sort.Strings(out)
	return out
}

type fsCrash struct{}

func (ex *Exec) fs() *fsState {
	st, _ := ex.ghost["fs"].(*fsState)
	if st == nil {
		st = &fsState{nodes: map[string]*fsNode{}, strict: true}
		st.nodes["/"] = &fsNode{name: "/", isDir: true}
		ex.ghost["fs"] = st
	}
	return st
}

func cleanPath(p string) string {
	if p == "" {
		return "."
	}
	parts := strings.Split(p, "/")
	var out []string
	for _, s := range parts {
		switch s {
		case "", ".":
		case "..":
			if len(out) > 0 {
				out = out[:len(out)-1]
			}
		default:
			out = append(out, s)
		}
	}
	r := strings.Join(out, "/")
	if strings.HasPrefix(p, "/") {
		return "/" + r
	}
	if r == "" {
		return "."
	}
	return r
}

func parentDir(p string) string {
	p = cleanPath(p)
	i := strings.LastIndexByte(p, '/')
	if i <= 0 {
		if strings.HasPrefix(p, "/") {
			return "/"
		}
		return "."
	}
	return p[:i]
}

func baseName(p string) string {
	p = cleanPath(p)
	return p[strings.LastIndexByte(p, '/')+1:]
}

func (ex *Exec) fsPath(v Value) string {
	s := argStr(ex, v)
	if strings.Contains(s, symMarker) {
		ex.unsupported("file path built from a symbolic value: %q", s)
	}
	return cleanPath(s)
}

// fsErr builds an *fs.PathError-like error value wrapping one of the fs sentinel errors.
func (ex *Exec) fsErr(op, path, sentinel string) iface {
	g := ex.eng.globalByName("io/fs", sentinel)
	inner := ex.load(ex.globalAddr(g)).(iface)
	return ex.newErr(fmt.Sprintf("%s %s: %s", op, path, ex.errString(inner)), inner)
}

func (ex *Exec) ioErr(op, path string) iface {
	return ex.newErr(fmt.Sprintf("%s %s: input/output error (injected)", op, path))
}

// mutating marks one file-system mutating operation: crash point and fault injection.
func (ex *Exec) fsMutating(op, path string) (fail bool) {
	st := ex.fs()
	st.ops++
	if st.crashAt != 0 && st.ops == st.crashAt {
		st.trace = append(st.trace, "CRASH before "+op+" "+path)
		panic(fsCrash{})
	}
	if st.faults {
		if ex.Choose("fsfault:"+op, 0, 1) == 1 {
			st.trace = append(st.trace, "FAIL "+op+" "+path)
			return true
		}
	}
	st.trace = append(st.trace, op+" "+path)
	return false
}

func (st *fsState) children(dir string) []string {
	var out []string
	prefix := dir
	if !strings.HasSuffix(prefix, "/") {
		prefix += "/"
	}
	for p := range st.nodes {
		if p != dir && strings.HasPrefix(p, prefix) && !strings.Contains(p[len(prefix):], "/") {
			out = append(out, p)
		}
	}
	sort.Strings(out)
	return out
}

func registerIO(e *Engine) {
	e.reg("os.Remove", func(ex *Exec, fr *frame, args []Value) Value {
		p := ex.fsPath(args[0])
		st := ex.fs()
		n := st.nodes[p]
		if n == nil {
			return ex.fsErr("remove", p, "ErrNotExist")
		}
		if n.isDir && len(st.children(p)) > 0 {
			return ex.newErr("remove " + p + ": directory not empty")
		}
		if ex.fsMutating("unlink", p) {
			return ex.ioErr("remove", p)
		}
		delete(st.nodes, p)
		st.unlinked = append(st.unlinked, p)
		if !strings.HasSuffix(p, ".tmp") {
			if pend := st.pendingAny(); len(pend) > 0 {
				st.events = append(st.events, "unlink-before-publish-durable "+p+" pending="+strings.Join(pend, ","))
			}
		}
		if d := st.nodes[parentDir(p)]; d != nil {
			d.entriesDirty = true
		}
		return iface{}
	})
	e.reg("os.IsNotExist", func(ex *Exec, fr *frame, args []Value) Value {
		err := args[0].(iface)
		if err.t == nil {
			return False
		}
		g := ex.eng.globalByName("io/fs", "ErrNotExist")
		target := ex.load(ex.globalAddr(g)).(iface)
		return KBool(ex.errorsIs(err, target, 0))
	})
	e.reg("os.IsExist", func(ex *Exec, fr *frame, args []Value) Value {
		err := args[0].(iface)
		if err.t == nil {
			return False
		}
		g := ex.eng.globalByName("io/fs", "ErrExist")
		target := ex.load(ex.globalAddr(g)).(iface)
		return KBool(ex.errorsIs(err, target, 0))
	})
}

var _ = types.Identical
