package main

func registerIO(e *Engine) {}
