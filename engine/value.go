package main

// Runtime values of the symbolic interpreter.
//
//   bool, all integer kinds   *Term (constant or symbolic)
//   string                    string (concrete only)
//   float32/64                float64 (concrete only)
//   complex                   unsupported
//   pointer                   *Value
//   struct                    structure
//   array                     array
//   slice                     []Value
//   map                       *Map
//   chan                      *Chan
//   interface                 iface
//   func                      *ssa.Function | *closure | *ssa.Builtin
//   tuple                     tuple

import (
	"fmt"
	"go/constant"
	"go/types"
	"strings"

	"golang.org/x/tools/go/ssa"
)

type Value = any

type structure []Value
type array []Value
type tuple []Value

type iface struct {
	t types.Type
	v Value
}

type closure struct {
	Fn  *ssa.Function
	Env []Value
}

type mapEntry struct {
	k, v Value
}

type Map struct {
	keyT, valT types.Type
	entries    []*mapEntry
	cidx       map[any]*mapEntry // entries with concrete keys, by canonical key
	sym        []*mapEntry       // entries with symbolic keys
}

// reindex rebuilds the key indexes from entries.
func (m *Map) reindex() {
	m.cidx, m.sym = nil, nil
	for _, e := range m.entries {
		if ck, ok := concreteKey(e.k); ok {
			if m.cidx == nil {
				m.cidx = map[any]*mapEntry{}
			}
			m.cidx[ck] = e
		} else {
			m.sym = append(m.sym, e)
		}
	}
}

// concreteKey returns a canonical Go value for a fully concrete map key.
func concreteKey(k Value) (any, bool) {
	switch k := k.(type) {
	case *Term:
		if k.IsConst() {
			return constKey{k.W, k.C}, true
		}
		return nil, false
	case string:
		return k, true
	case *Value:
		return k, true
	case float64:
		return k, true
	case array:
		var sb strings.Builder
		for _, e := range k {
			c, ok := concreteKey(e)
			if !ok {
				return nil, false
			}
			fmt.Fprintf(&sb, "%#v|", c)
		}
		return "arr:" + sb.String(), true
	case structure:
		var sb strings.Builder
		for _, e := range k {
			c, ok := concreteKey(e)
			if !ok {
				return nil, false
			}
			fmt.Fprintf(&sb, "%#v|", c)
		}
		return "st:" + sb.String(), true
	}
	return nil, false
}

type Chan struct {
	buf    []Value
	cap    int
	closed bool
	elemT  types.Type
	ticker bool // always ready: every receive yields the current instant (time.Ticker model)
}

// unsafePtr stands for any unsafe.Pointer value; using one aborts the path as unsupported.
type unsafePtr struct{}

// native wraps an engine-side Go object (e.g. a model of *os.File) stored in a target variable.
type native struct{ obj any }

func typeWidth(t types.Type) (w int, signed bool, ok bool) {
	b, isB := t.Underlying().(*types.Basic)
	if !isB {
		return 0, false, false
	}
	switch b.Kind() {
	case types.Bool, types.UntypedBool:
		return 0, false, true
	case types.Int8:
		return 8, true, true
	case types.Uint8:
		return 8, false, true
	case types.Int16:
		return 16, true, true
	case types.Uint16:
		return 16, false, true
	case types.Int32, types.UntypedRune:
		return 32, true, true
	case types.Uint32:
		return 32, false, true
	case types.Int64, types.Int, types.UntypedInt:
		return 64, true, true
	case types.Uint64, types.Uint, types.Uintptr:
		return 64, false, true
	}
	return 0, false, false
}

func isFloat(t types.Type) bool {
	b, ok := t.Underlying().(*types.Basic)
	return ok && b.Info()&types.IsFloat != 0
}

func isString(t types.Type) bool {
	b, ok := t.Underlying().(*types.Basic)
	return ok && b.Info()&types.IsString != 0
}

func zero(t types.Type) Value {
	switch t := t.(type) {
	case *types.Basic:
		if t.Kind() == types.UnsafePointer {
			return unsafePtr{}
		}
		if t.Kind() == types.UntypedNil {
			panic("zero of untyped nil")
		}
		if w, _, ok := typeWidth(t); ok {
			return K(w, 0)
		}
		if isFloat(t) {
			return float64(0)
		}
		if isString(t) {
			return ""
		}
		if t.Info()&types.IsComplex != 0 {
			return complex128(0)
		}
		panic(fmt.Sprintf("zero: basic %v", t))
	case *types.Pointer:
		return (*Value)(nil)
	case *types.Array:
		a := make(array, t.Len())
		for i := range a {
			a[i] = zero(t.Elem())
		}
		return a
	case *types.Named, *types.Alias:
		return zero(t.Underlying())
	case *types.Interface:
		return iface{}
	case *types.Slice:
		return []Value(nil)
	case *types.Struct:
		s := make(structure, t.NumFields())
		for i := range s {
			s[i] = zero(t.Field(i).Type())
		}
		return s
	case *types.Tuple:
		if t.Len() == 1 {
			return zero(t.At(0).Type())
		}
		s := make(tuple, t.Len())
		for i := range s {
			s[i] = zero(t.At(i).Type())
		}
		return s
	case *types.Chan:
		return (*Chan)(nil)
	case *types.Map:
		return (*Map)(nil)
	case *types.Signature:
		return (*closure)(nil)
	case *types.TypeParam:
		panic("zero of type parameter (generic body not instantiated)")
	}
	panic(fmt.Sprintf("zero: unexpected type %T %v", t, t))
}

// copyVal returns a copy of v with value semantics (structs and arrays are deep-copied,
// references are shared).
func copyVal(v Value) Value {
	switch v := v.(type) {
	case structure:
		c := make(structure, len(v))
		for i, f := range v {
			c[i] = copyVal(f)
		}
		return c
	case array:
		c := make(array, len(v))
		for i, f := range v {
			c[i] = copyVal(f)
		}
		return c
	}
	return v
}

func isNilValue(v Value) bool {
	switch v := v.(type) {
	case *Value:
		return v == nil
	case []Value:
		return v == nil
	case *Map:
		return v == nil
	case *Chan:
		return v == nil
	case iface:
		return v.t == nil
	case *closure:
		return v == nil
	case *ssa.Function:
		return v == nil
	case nil:
		return true
	}
	return false
}

func (ex *Exec) constValue(c *ssa.Const) Value {
	if c.Value == nil {
		return zero(c.Type()) // nil or zero value of aggregate
	}
	t := c.Type().Underlying()
	if b, ok := t.(*types.Basic); ok {
		if w, signed, ok := typeWidth(b); ok {
			if w == 0 {
				return KBool(constant.BoolVal(c.Value))
			}
			if signed {
				return K(w, uint64(c.Int64()))
			}
			return K(w, c.Uint64())
		}
		if isFloat(b) {
			return c.Float64()
		}
		if isString(b) {
			if c.Value.Kind() == constant.String {
				return constant.StringVal(c.Value)
			}
			return string(rune(c.Int64()))
		}
		if b.Info()&types.IsComplex != 0 {
			return c.Complex128()
		}
	}
	if _, ok := t.(*types.TypeParam); ok {
		panic("const of type parameter")
	}
	panic(fmt.Sprintf("constValue: %v : %v", c, c.Type()))
}

// eqVal builds the term "x == y" for comparable values of static type t.
func (ex *Exec) eqVal(x, y Value) *Term {
	switch x := x.(type) {
	case *Term:
		yt, ok := y.(*Term)
		if !ok {
			return False
		}
		if x.W != yt.W {
			return False
		}
		return ex.ts.Eq(x, yt)
	case string:
		ys, ok := y.(string)
		return KBool(ok && x == ys)
	case float64:
		yf, ok := y.(float64)
		return KBool(ok && x == yf)
	case *Value:
		yp, ok := y.(*Value)
		return KBool(ok && x == yp)
	case *Map:
		ym, ok := y.(*Map)
		return KBool(ok && x == ym)
	case *Chan:
		yc, ok := y.(*Chan)
		return KBool(ok && x == yc)
	case []Value:
		ys, ok := y.([]Value)
		if ok && (x == nil || ys == nil) {
			return KBool(x == nil && ys == nil)
		}
		ex.unsupported("comparison of non-nil slices")
	case iface:
		yi, ok := y.(iface)
		if !ok {
			return False
		}
		if x.t == nil || yi.t == nil {
			return KBool(x.t == nil && yi.t == nil)
		}
		if !types.Identical(x.t, yi.t) {
			return False
		}
		return ex.eqVal(x.v, yi.v)
	case structure:
		ys, ok := y.(structure)
		if !ok || len(ys) != len(x) {
			return False
		}
		r := True
		for i := range x {
			r = ex.ts.And(r, ex.eqVal(x[i], ys[i]))
		}
		return r
	case array:
		ys, ok := y.(array)
		if !ok || len(ys) != len(x) {
			return False
		}
		r := True
		for i := range x {
			r = ex.ts.And(r, ex.eqVal(x[i], ys[i]))
		}
		return r
	case *closure:
		if yc, ok := y.(*closure); ok {
			if x == nil || yc == nil {
				return KBool(x == nil && yc == nil)
			}
			return KBool(x == yc)
		}
		if yf, ok := y.(*ssa.Function); ok {
			return KBool(x == nil && yf == nil)
		}
		return False
	case *ssa.Function:
		if yc, ok := y.(*closure); ok {
			return KBool(x == nil && yc == nil)
		}
		if yf, ok := y.(*ssa.Function); ok {
			return KBool(x == yf)
		}
		return False
	case *ssa.Builtin:
		return KBool(y == Value(x))
	case unsafePtr:
		ex.unsupported("unsafe.Pointer comparison")
	case native:
		yn, ok := y.(native)
		return KBool(ok && x.obj == yn.obj)
	case nil:
		return KBool(y == nil)
	case complex128:
		yc, ok := y.(complex128)
		return KBool(ok && x == yc)
	}
	panic(fmt.Sprintf("eqVal: unhandled %T", x))
}

// ---- maps with possibly symbolic keys ----

func newMap(kt, vt types.Type) *Map { return &Map{keyT: kt, valT: vt} }

// find returns the entry whose key equals k on this path, deciding symbolic
// equalities by branching (entries therefore stay pairwise distinct under the PC).
func (ex *Exec) mapFind(m *Map, k Value) *mapEntry {
	if m == nil {
		return nil
	}
	scan := m.entries
	if ck, ok := concreteKey(k); ok {
		if e := m.cidx[ck]; e != nil {
			return e
		}
		scan = m.sym // a concrete key can only equal a symbolic-key entry now
	}
	for _, e := range scan {
		eq := ex.eqVal(e.k, k)
		if eq.IsTrue() {
			return e
		}
		if eq.IsFalse() {
			continue
		}
		if ex.Branch(eq, "mapkey") {
			return e
		}
	}
	return nil
}

func (ex *Exec) mapInsert(m *Map, k, v Value) {
	if m == nil {
		ex.targetPanicStr("assignment to entry in nil map")
	}
	if e := ex.mapFind(m, k); e != nil {
		e.v = v
		return
	}
	e := &mapEntry{k: copyVal(k), v: v}
	m.entries = append(m.entries, e)
	if ck, ok := concreteKey(k); ok {
		if m.cidx == nil {
			m.cidx = map[any]*mapEntry{}
		}
		m.cidx[ck] = e
	} else {
		m.sym = append(m.sym, e)
	}
}

func (ex *Exec) mapDelete(m *Map, k Value) {
	if m == nil {
		return
	}
	e := ex.mapFind(m, k)
	if e == nil {
		return
	}
	for i, x := range m.entries {
		if x == e {
			m.entries = append(m.entries[:i:i], m.entries[i+1:]...)
			break
		}
	}
	if ck, ok := concreteKey(e.k); ok {
		delete(m.cidx, ck)
	} else {
		for i, x := range m.sym {
			if x == e {
				m.sym = append(m.sym[:i:i], m.sym[i+1:]...)
				break
			}
		}
	}
}

// ---- debugging ----

func valString(v Value) string {
	var sb strings.Builder
	writeVal(&sb, v, 0)
	return sb.String()
}

func writeVal(sb *strings.Builder, v Value, depth int) {
	if depth > 4 || sb.Len() > 2000 {
		sb.WriteString("…")
		return
	}
	switch v := v.(type) {
	case nil:
		sb.WriteString("<nil>")
	case *Term:
		sb.WriteString(v.String())
	case string:
		fmt.Fprintf(sb, "%q", v)
	case structure:
		sb.WriteString("{")
		for i, f := range v {
			if i > 0 {
				sb.WriteString(" ")
			}
			writeVal(sb, f, depth+1)
		}
		sb.WriteString("}")
	case array:
		sb.WriteString("[")
		for i, f := range v {
			if i > 0 {
				sb.WriteString(" ")
			}
			if i > 8 {
				sb.WriteString("…")
				break
			}
			writeVal(sb, f, depth+1)
		}
		sb.WriteString("]")
	case []Value:
		if v == nil {
			sb.WriteString("nil[]")
			return
		}
		sb.WriteString("[]{")
		for i, f := range v {
			if i > 0 {
				sb.WriteString(" ")
			}
			if i > 8 {
				sb.WriteString("…")
				break
			}
			writeVal(sb, f, depth+1)
		}
		sb.WriteString("}")
	case tuple:
		sb.WriteString("(")
		for i, f := range v {
			if i > 0 {
				sb.WriteString(", ")
			}
			writeVal(sb, f, depth+1)
		}
		sb.WriteString(")")
	case iface:
		if v.t == nil {
			sb.WriteString("nil-iface")
			return
		}
		fmt.Fprintf(sb, "iface(%s:", v.t)
		writeVal(sb, v.v, depth+1)
		sb.WriteString(")")
	case *Value:
		if v == nil {
			sb.WriteString("nil-ptr")
			return
		}
		sb.WriteString("&")
		writeVal(sb, *v, depth+1)
	case *Map:
		if v == nil {
			sb.WriteString("nil-map")
			return
		}
		sb.WriteString("map{")
		for i, e := range v.entries {
			if i > 0 {
				sb.WriteString(" ")
			}
			writeVal(sb, e.k, depth+1)
			sb.WriteString(":")
			writeVal(sb, e.v, depth+1)
		}
		sb.WriteString("}")
	case *closure:
		if v == nil {
			sb.WriteString("nil-func")
		} else {
			sb.WriteString("closure:" + v.Fn.String())
		}
	case *ssa.Function:
		sb.WriteString("func:" + v.String())
	default:
		fmt.Fprintf(sb, "%T", v)
	}
}
