package main

// symsql, engine side: the database/sql calls db.go makes are intrinsics that
// hand every statement to the harness's handler (vx.SQLOpen), exactly what the
// native "vxsql" driver does under the real database/sql.

import (
	"sort"
	"go/types"
)

type sqlDB struct {
	handler Value
	nextTx  int
	closed  bool
	// the connection pool of database/sql: a statement outside a transaction runs on
	// the most recently freed connection (or a new one, configured by the DSN only);
	// a transaction pins its connection until it ends
	dsn      string
	nextConn int
	free     []int
}

// acquire takes a connection the way database/sql does (LIFO free list, else a new one).
func (ex *Exec) sqlAcquire(fr *frame, d *sqlDB) int {
	if n := len(d.free); n > 0 {
		id := d.free[n-1]
		d.free = d.free[:n-1]
		return id
	}
	d.nextConn++
	ex.sqlCall(fr, d, "open", d.dsn, 0, d.nextConn)
	return d.nextConn
}

func (d *sqlDB) release(id int) { d.free = append(d.free, id) }

type sqlTx struct {
	db   *sqlDB
	id   int
	conn int
	done bool
	ctx  *nativeCtx // the context the transaction was begun with (database/sql rolls it back when that context ends)
}

type sqlRow struct {
	res structure
	err iface
}

func (ex *Exec) sqlDBOf(v Value) *sqlDB {
	p, _ := v.(*Value)
	if p == nil {
		ex.targetPanicStr("nil pointer dereference (*sql.DB)")
	}
	m, _ := ex.ghost["sqldb"].(map[*Value]*sqlDB)
	d := m[p]
	if d == nil {
		ex.unsupported("*sql.DB not opened through vx.SQLOpen")
	}
	return d
}

func (ex *Exec) sqlTxOf(v Value) *sqlTx {
	p, _ := v.(*Value)
	if p == nil {
		ex.targetPanicStr("nil pointer dereference (*sql.Tx)")
	}
	m, _ := ex.ghost["sqltx"].(map[*Value]*sqlTx)
	t := m[p]
	if t == nil {
		ex.unsupported("*sql.Tx not begun through the SQL model")
	}
	return t
}

// sqlCall invokes the harness handler with one event.
func (ex *Exec) sqlCall(fr *frame, d *sqlDB, kind, q string, tx int, conn int) (structure, iface) {
	ev := structure{kind, q, K(64, uint64(tx)), K(64, uint64(conn))}
	out := ex.call(fr, 0, d.handler, []Value{ev}).(structure)
	if msg := out[0].(string); msg != "" {
		return out, ex.newErr(msg)
	}
	return out, iface{}
}

func (ex *Exec) errTxDone() iface {
	// database/sql's own initialiser needs reflection; the text is what callers match
	return ex.newErr("sql: transaction has already been committed or rolled back")
}

func init() {
	extraIntrinsics = append(extraIntrinsics, registerSQL)
}

func registerSQL(e *Engine) {
	e.reg(vxPath+".SQLOpen", func(ex *Exec, fr *frame, args []Value) Value {
		var cell Value = zero(deref(fr.fn.Signature.Results().At(0).Type()))
		m, _ := ex.ghost["sqldb"].(map[*Value]*sqlDB)
		if m == nil {
			m = map[*Value]*sqlDB{}
			ex.ghost["sqldb"] = m
		}
		m[&cell] = &sqlDB{handler: args[0]}
		return &cell
	})
	e.reg(vxPath+".SQLOpenDSN", func(ex *Exec, fr *frame, args []Value) Value {
		var cell Value = zero(deref(fr.fn.Signature.Results().At(0).Type()))
		m, _ := ex.ghost["sqldb"].(map[*Value]*sqlDB)
		if m == nil {
			m = map[*Value]*sqlDB{}
			ex.ghost["sqldb"] = m
		}
		m[&cell] = &sqlDB{handler: args[0], dsn: argStr(ex, args[1])}
		return &cell
	})
	e.reg("(*database/sql.DB).BeginTx", func(ex *Exec, fr *frame, args []Value) Value {
		d := ex.sqlDBOf(args[0])
		d.nextTx++
		id := d.nextTx
		conn := ex.sqlAcquire(fr, d)
		_, err := ex.sqlCall(fr, d, "begin", "", id, conn)
		if err.t != nil {
			d.release(conn)
			return tuple{(*Value)(nil), err}
		}
		var cell Value = zero(deref(fr.fn.Signature.Results().At(0).Type()))
		m, _ := ex.ghost["sqltx"].(map[*Value]*sqlTx)
		if m == nil {
			m = map[*Value]*sqlTx{}
			ex.ghost["sqltx"] = m
		}
		t := &sqlTx{db: d, id: id, conn: conn}
		if it, ok := args[1].(iface); ok {
			t.ctx, _ = it.v.(*nativeCtx)
		}
		m[&cell] = t
		return tuple{&cell, iface{}}
	})
	execDB := func(ex *Exec, fr *frame, args []Value, qi int) Value {
		d := ex.sqlDBOf(args[0])
		conn := ex.sqlAcquire(fr, d)
		_, err := ex.sqlCall(fr, d, "exec", argStr(ex, args[qi]), 0, conn)
		d.release(conn)
		if err.t != nil {
			return tuple{iface{}, err}
		}
		return tuple{iface{t: opaqueIfaceType, v: &opaqueObj{}}, iface{}}
	}
	e.reg("(*database/sql.DB).ExecContext", func(ex *Exec, fr *frame, args []Value) Value { return execDB(ex, fr, args, 2) })
	e.reg("(*database/sql.DB).Exec", func(ex *Exec, fr *frame, args []Value) Value { return execDB(ex, fr, args, 1) })
	queryRow := func(ex *Exec, fr *frame, d *sqlDB, q string, tx int, conn int) Value {
		own := conn == 0
		if own {
			conn = ex.sqlAcquire(fr, d)
		}
		res, err := ex.sqlCall(fr, d, "query", q, tx, conn)
		if own {
			d.release(conn)
		}
		var cell Value = native{obj: &sqlRow{res: res, err: err}}
		return &cell
	}
	e.reg("(*database/sql.DB).QueryRowContext", func(ex *Exec, fr *frame, args []Value) Value {
		return queryRow(ex, fr, ex.sqlDBOf(args[0]), argStr(ex, args[2]), 0, 0)
	})
	e.reg("(*database/sql.DB).QueryRow", func(ex *Exec, fr *frame, args []Value) Value {
		return queryRow(ex, fr, ex.sqlDBOf(args[0]), argStr(ex, args[1]), 0, 0)
	})
	e.reg("(*database/sql.Row).Scan", func(ex *Exec, fr *frame, args []Value) Value {
		row := (*args[0].(*Value)).(native).obj.(*sqlRow)
		if row.err.t != nil {
			return row.err
		}
		dests := variadic(args[1])
		ints, _ := row.res[1].([]Value)
		isStr := row.res[3].(*Term).IsTrue()
		for i, dv := range dests {
			it := dv.(iface)
			p := it.v.(*Value)
			et := it.t.Underlying().(*types.Pointer).Elem()
			if isString(et) {
				if !isStr {
					return ex.newErr("sql: Scan error: converting integer to string")
				}
				*p = row.res[2].(string)
				continue
			}
			if i >= len(ints) {
				return ex.newErr("sql: expected more destination arguments in Scan")
			}
			w, _, ok := typeWidth(et)
			if !ok {
				ex.unsupported("sql.Row.Scan into %v", et)
			}
			*p = ex.ts.Resize(ints[i].(*Term), w, true)
		}
		return iface{}
	})
	e.reg("(*database/sql.Row).Err", func(ex *Exec, fr *frame, args []Value) Value {
		return (*args[0].(*Value)).(native).obj.(*sqlRow).err
	})
	execTx := func(ex *Exec, fr *frame, args []Value, qi int) Value {
		t := ex.sqlTxOf(args[0])
		if t.done {
			return tuple{iface{}, ex.errTxDone()}
		}
		_, err := ex.sqlCall(fr, t.db, "exec", argStr(ex, args[qi]), t.id, t.conn)
		if err.t != nil {
			return tuple{iface{}, err}
		}
		return tuple{iface{t: opaqueIfaceType, v: &opaqueObj{}}, iface{}}
	}
	e.reg("(*database/sql.Tx).ExecContext", func(ex *Exec, fr *frame, args []Value) Value { return execTx(ex, fr, args, 2) })
	e.reg("(*database/sql.Tx).Exec", func(ex *Exec, fr *frame, args []Value) Value { return execTx(ex, fr, args, 1) })
	e.reg("(*database/sql.Tx).QueryRowContext", func(ex *Exec, fr *frame, args []Value) Value {
		t := ex.sqlTxOf(args[0])
		return queryRow(ex, fr, t.db, argStr(ex, args[2]), t.id, t.conn)
	})
	end := func(kind string) intrinsic {
		return func(ex *Exec, fr *frame, args []Value) Value {
			t := ex.sqlTxOf(args[0])
			if t.done {
				return ex.errTxDone()
			}
			t.done = true
			_, err := ex.sqlCall(fr, t.db, kind, "", t.id, t.conn)
			t.db.release(t.conn)
			return err
		}
	}
	e.reg("(*database/sql.Tx).Rollback", end("rollback"))
	e.reg("(*database/sql.Tx).Commit", end("commit"))
	e.reg("(*database/sql.DB).Close", func(ex *Exec, fr *frame, args []Value) Value {
		d := ex.sqlDBOf(args[0])
		if !d.closed {
			d.closed = true
			ex.sqlCall(fr, d, "close", "", 0, 0)
		}
		return iface{}
	})
	nop := func(ex *Exec, fr *frame, args []Value) Value { return nil }
	e.reg("(*database/sql.DB).SetMaxOpenConns", nop)
	e.reg("(*database/sql.DB).SetMaxIdleConns", nop)
	e.reg("(*database/sql.DB).SetConnMaxLifetime", nop)
	e.reg("(*database/sql.DB).PingContext", func(ex *Exec, fr *frame, args []Value) Value { return iface{} })
}

// sqlContextCancelled is database/sql's watcher: a transaction begun with a
// context is rolled back when that context (or an ancestor) is cancelled.
func (ex *Exec) sqlContextCancelled(c *nativeCtx) {
	m, _ := ex.ghost["sqltx"].(map[*Value]*sqlTx)
	var txs []*sqlTx
	for _, t := range m {
		if t.done || t.ctx == nil {
			continue
		}
		for p := t.ctx; p != nil; {
			if p == c {
				txs = append(txs, t)
				break
			}
			pp, _ := p.parent.v.(*nativeCtx)
			p = pp
		}
	}
	sort.Slice(txs, func(i, j int) bool { return txs[i].id < txs[j].id })
	for _, t := range txs {
		t.done = true
		ex.sqlCall(nil, t.db, "rollback", "", t.id, t.conn)
		t.db.release(t.conn)
	}
}
