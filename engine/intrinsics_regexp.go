package main

// regexp on concrete strings: the compiled expression lives inside the cell the
// target's *regexp.Regexp points to, so package-level regexps survive the
// per-path copy of package state.

import (
	"regexp"
)

func (ex *Exec) regexpOf(v Value) *regexp.Regexp {
	p, _ := v.(*Value)
	if p == nil {
		ex.targetPanicStr("nil pointer dereference (*regexp.Regexp)")
	}
	n, ok := (*p).(native)
	if !ok {
		ex.unsupported("*regexp.Regexp not created by regexp.Compile")
	}
	return n.obj.(*regexp.Regexp)
}

func init() {
	extraIntrinsics = append(extraIntrinsics, func(e *Engine) {
		compile := func(must bool) intrinsic {
			return func(ex *Exec, fr *frame, args []Value) Value {
				re, err := regexp.Compile(argStr(ex, args[0]))
				if err != nil {
					if must {
						ex.targetPanicStr("regexp: Compile: " + err.Error())
					}
					return tuple{(*Value)(nil), ex.newErr(err.Error())}
				}
				var cell Value = native{obj: re}
				if must {
					return &cell
				}
				return tuple{&cell, iface{}}
			}
		}
		e.reg("regexp.MustCompile", compile(true))
		e.reg("regexp.Compile", compile(false))
		e.reg("(*regexp.Regexp).MatchString", func(ex *Exec, fr *frame, args []Value) Value {
			return KBool(ex.regexpOf(args[0]).MatchString(argStr(ex, args[1])))
		})
		e.reg("(*regexp.Regexp).FindStringSubmatch", func(ex *Exec, fr *frame, args []Value) Value {
			return toStrSlice(ex.regexpOf(args[0]).FindStringSubmatch(argStr(ex, args[1])))
		})
		e.reg("(*regexp.Regexp).FindString", func(ex *Exec, fr *frame, args []Value) Value {
			return ex.regexpOf(args[0]).FindString(argStr(ex, args[1]))
		})
		e.reg("(*regexp.Regexp).ReplaceAllString", func(ex *Exec, fr *frame, args []Value) Value {
			return ex.regexpOf(args[0]).ReplaceAllString(argStr(ex, args[1]), argStr(ex, args[2]))
		})
		e.reg("(*regexp.Regexp).String", func(ex *Exec, fr *frame, args []Value) Value {
			return ex.regexpOf(args[0]).String()
		})
		e.reg("regexp.MatchString", func(ex *Exec, fr *frame, args []Value) Value {
			ok, err := regexp.MatchString(argStr(ex, args[0]), argStr(ex, args[1]))
			if err != nil {
				return tuple{False, ex.newErr(err.Error())}
			}
			return tuple{KBool(ok), iface{}}
		})
		e.reg("regexp.QuoteMeta", func(ex *Exec, fr *frame, args []Value) Value {
			return regexp.QuoteMeta(argStr(ex, args[0]))
		})
	})
}
