package main

// Terms: a hash-consed DAG over SMT-LIB2 bit-vectors and booleans.
// Width 0 means Bool. Constants are interned globally (they may live in
// package-level state shared between paths); all other terms belong to a
// per-path TermStore.

import (
	"fmt"
	"math/bits"
	"strings"
	"sync"
	"sync/atomic"
)

type Op uint8

const (
	OpConst Op = iota
	OpVar
	OpAdd
	OpSub
	OpMul
	OpUDiv
	OpURem
	OpSDiv
	OpSRem
	OpAnd
	OpOr
	OpXor
	OpNot
	OpNeg
	OpShl
	OpLShr
	OpAShr
	OpConcat
	OpExtract
	OpZExt
	OpSExt
	OpIte
	OpEq
	OpULt
	OpULe
	OpSLt
	OpSLe
	OpBAnd
	OpBOr
	OpBNot
)

var opNames = [...]string{
	OpAdd: "bvadd", OpSub: "bvsub", OpMul: "bvmul", OpUDiv: "bvudiv", OpURem: "bvurem",
	OpSDiv: "bvsdiv", OpSRem: "bvsrem", OpAnd: "bvand", OpOr: "bvor", OpXor: "bvxor",
	OpNot: "bvnot", OpNeg: "bvneg", OpShl: "bvshl", OpLShr: "bvlshr", OpAShr: "bvashr",
	OpConcat: "concat", OpIte: "ite", OpEq: "=", OpULt: "bvult", OpULe: "bvule",
	OpSLt: "bvslt", OpSLe: "bvsle", OpBAnd: "and", OpBOr: "or", OpBNot: "not",
}

type Term struct {
	Op     Op
	W      int // bit width; 0 = Bool
	A      [3]*Term
	N      int
	C      uint64 // constant value (masked), bool: 0/1
	Name   string // variable name
	P0, P1 int    // extract hi,lo / extend amount
	id     int64
}

func (t *Term) IsConst() bool { return t.Op == OpConst }
func (t *Term) IsTrue() bool  { return t.Op == OpConst && t.W == 0 && t.C == 1 }
func (t *Term) IsFalse() bool { return t.Op == OpConst && t.W == 0 && t.C == 0 }

func mask(w int) uint64 {
	if w >= 64 {
		return ^uint64(0)
	}
	return (uint64(1) << uint(w)) - 1
}

func sext(v uint64, w int) int64 {
	if w >= 64 {
		return int64(v)
	}
	s := uint(64 - w)
	return int64(v<<s) >> s
}

var (
	constTab sync.Map // key constKey -> *Term
	idCtr    atomic.Int64
)

type constKey struct {
	w int
	c uint64
}

// K returns the interned constant of width w (0 = Bool).
func K(w int, v uint64) *Term {
	if w == 0 {
		v &= 1
	} else {
		v &= mask(w)
	}
	k := constKey{w, v}
	if t, ok := constTab.Load(k); ok {
		return t.(*Term)
	}
	t := &Term{Op: OpConst, W: w, C: v, id: idCtr.Add(1)}
	a, _ := constTab.LoadOrStore(k, t)
	return a.(*Term)
}

var (
	True  = K(0, 1)
	False = K(0, 0)
)

func KBool(b bool) *Term {
	if b {
		return True
	}
	return False
}

type termKey struct {
	op     Op
	w      int
	a      [3]*Term
	p0, p1 int
	name   string
}

// TermStore owns the non-constant terms of one path execution.
type TermStore struct {
	tab     map[termKey]*Term
	vars    []*Term
	nMulSym int // symbolic*symbolic multiplications/divisions (flagged in evidence)
}

func NewTermStore() *TermStore { return &TermStore{tab: map[termKey]*Term{}} }

func (s *TermStore) mk(op Op, w int, p0, p1 int, args ...*Term) *Term {
	k := termKey{op: op, w: w, p0: p0, p1: p1}
	copy(k.a[:], args)
	if t, ok := s.tab[k]; ok {
		return t
	}
	t := &Term{Op: op, W: w, N: len(args), P0: p0, P1: p1, id: idCtr.Add(1)}
	copy(t.A[:], args)
	s.tab[k] = t
	return t
}

func (s *TermStore) Var(name string, w int) *Term {
	k := termKey{op: OpVar, w: w, name: name}
	if t, ok := s.tab[k]; ok {
		return t
	}
	t := &Term{Op: OpVar, W: w, Name: name, id: idCtr.Add(1)}
	s.tab[k] = t
	s.vars = append(s.vars, t)
	return t
}

// ---- boolean connectives ----

func (s *TermStore) Not(a *Term) *Term {
	if a.W != 0 {
		panic("Not on non-bool")
	}
	if a.IsConst() {
		return K(0, a.C^1)
	}
	if a.Op == OpBNot {
		return a.A[0]
	}
	return s.mk(OpBNot, 0, 0, 0, a)
}

func (s *TermStore) And(a, b *Term) *Term {
	if a.IsFalse() || b.IsFalse() {
		return False
	}
	if a.IsTrue() {
		return b
	}
	if b.IsTrue() {
		return a
	}
	if a == b {
		return a
	}
	return s.mk(OpBAnd, 0, 0, 0, a, b)
}

func (s *TermStore) Or(a, b *Term) *Term {
	if a.IsTrue() || b.IsTrue() {
		return True
	}
	if a.IsFalse() {
		return b
	}
	if b.IsFalse() {
		return a
	}
	if a == b {
		return a
	}
	return s.mk(OpBOr, 0, 0, 0, a, b)
}

func (s *TermStore) Implies(a, b *Term) *Term { return s.Or(s.Not(a), b) }

func (s *TermStore) Ite(c, a, b *Term) *Term {
	if a.W != b.W {
		panic(fmt.Sprintf("Ite width mismatch %d %d", a.W, b.W))
	}
	if c.IsTrue() {
		return a
	}
	if c.IsFalse() {
		return b
	}
	if a == b {
		return a
	}
	if a.W == 0 {
		// boolean ite -> connectives where trivial
		if a.IsTrue() && b.IsFalse() {
			return c
		}
		if a.IsFalse() && b.IsTrue() {
			return s.Not(c)
		}
		if a.IsTrue() {
			return s.Or(c, b)
		}
		if b.IsFalse() {
			return s.And(c, a)
		}
		if a.IsFalse() {
			return s.And(s.Not(c), b)
		}
		if b.IsTrue() {
			return s.Or(s.Not(c), a)
		}
	}
	return s.mk(OpIte, a.W, 0, 0, c, a, b)
}

func (s *TermStore) Eq(a, b *Term) *Term {
	if a.W != b.W {
		panic(fmt.Sprintf("Eq width mismatch %d %d", a.W, b.W))
	}
	if a == b {
		return True
	}
	if a.IsConst() && b.IsConst() {
		return KBool(a.C == b.C)
	}
	if a.W == 0 {
		if a.IsConst() {
			a, b = b, a
		}
		if b.IsTrue() {
			return a
		}
		if b.IsFalse() {
			return s.Not(a)
		}
	}
	if a.id > b.id {
		a, b = b, a
	}
	return s.mk(OpEq, 0, 0, 0, a, b)
}

// ---- comparisons ----

func (s *TermStore) Cmp(op Op, a, b *Term) *Term {
	if a.W != b.W || a.W == 0 {
		panic(fmt.Sprintf("Cmp width mismatch %d %d", a.W, b.W))
	}
	if a.IsConst() && b.IsConst() {
		switch op {
		case OpULt:
			return KBool(a.C < b.C)
		case OpULe:
			return KBool(a.C <= b.C)
		case OpSLt:
			return KBool(sext(a.C, a.W) < sext(b.C, a.W))
		case OpSLe:
			return KBool(sext(a.C, a.W) <= sext(b.C, a.W))
		}
	}
	if a == b {
		return KBool(op == OpULe || op == OpSLe)
	}
	// trivial unsigned bounds
	if op == OpULt && b.IsConst() && b.C == 0 {
		return False
	}
	if op == OpULe && a.IsConst() && a.C == 0 {
		return True
	}
	return s.mk(op, 0, 0, 0, a, b)
}

// ---- arithmetic ----

func (s *TermStore) Bin(op Op, a, b *Term) *Term {
	if a.W != b.W || a.W == 0 {
		panic(fmt.Sprintf("Bin %s width mismatch %d %d", opNames[op], a.W, b.W))
	}
	w := a.W
	if a.IsConst() && b.IsConst() {
		x, y := a.C, b.C
		var r uint64
		switch op {
		case OpAdd:
			r = x + y
		case OpSub:
			r = x - y
		case OpMul:
			r = x * y
		case OpUDiv:
			if y == 0 {
				r = mask(w)
			} else {
				r = x / y
			}
		case OpURem:
			if y == 0 {
				r = x
			} else {
				r = x % y
			}
		case OpSDiv:
			sx, sy := sext(x, w), sext(y, w)
			if sy == 0 {
				if sx >= 0 {
					r = mask(w)
				} else {
					r = 1
				}
			} else if sy == -1 {
				r = uint64(-sx)
			} else {
				r = uint64(sx / sy)
			}
		case OpSRem:
			sx, sy := sext(x, w), sext(y, w)
			if sy == 0 {
				r = x
			} else if sy == -1 {
				r = 0
			} else {
				r = uint64(sx % sy)
			}
		case OpAnd:
			r = x & y
		case OpOr:
			r = x | y
		case OpXor:
			r = x ^ y
		case OpShl:
			if y >= uint64(w) {
				r = 0
			} else {
				r = x << y
			}
		case OpLShr:
			if y >= uint64(w) {
				r = 0
			} else {
				r = x >> y
			}
		case OpAShr:
			sx := sext(x, w)
			if y >= uint64(w) {
				y = uint64(w - 1)
			}
			if y > 63 {
				y = 63
			}
			r = uint64(sx >> y)
		default:
			panic("Bin: bad op")
		}
		return K(w, r)
	}
	// identities
	switch op {
	case OpAdd:
		if a.IsConst() && a.C == 0 {
			return b
		}
		if b.IsConst() && b.C == 0 {
			return a
		}
		if a.IsConst() { // canonical: const on the right
			a, b = b, a
		}
		// (x + c1) + c2
		if b.IsConst() && a.Op == OpAdd && a.A[1].IsConst() {
			return s.Bin(OpAdd, a.A[0], K(w, a.A[1].C+b.C))
		}
	case OpSub:
		if b.IsConst() && b.C == 0 {
			return a
		}
		if a == b {
			return K(w, 0)
		}
		if b.IsConst() {
			return s.Bin(OpAdd, a, K(w, -b.C))
		}
	case OpMul:
		if a.IsConst() {
			a, b = b, a
		}
		if b.IsConst() {
			if b.C == 0 {
				return K(w, 0)
			}
			if b.C == 1 {
				return a
			}
			if bits.OnesCount64(b.C) == 1 {
				return s.Bin(OpShl, a, K(w, uint64(bits.TrailingZeros64(b.C))))
			}
		} else {
			s.nMulSym++
		}
	case OpUDiv:
		if b.IsConst() && b.C == 1 {
			return a
		}
		if b.IsConst() && bits.OnesCount64(b.C) == 1 {
			return s.Bin(OpLShr, a, K(w, uint64(bits.TrailingZeros64(b.C))))
		}
		if !b.IsConst() {
			s.nMulSym++
		}
	case OpURem:
		if b.IsConst() && b.C != 0 && bits.OnesCount64(b.C) == 1 {
			return s.Bin(OpAnd, a, K(w, b.C-1))
		}
		if !b.IsConst() {
			s.nMulSym++
		}
	case OpSDiv, OpSRem:
		if !b.IsConst() {
			s.nMulSym++
		}
	case OpAnd:
		if a.IsConst() {
			a, b = b, a
		}
		if b.IsConst() {
			if b.C == 0 {
				return K(w, 0)
			}
			if b.C == mask(w) {
				return a
			}
		}
		if a == b {
			return a
		}
	case OpOr:
		if a.IsConst() {
			a, b = b, a
		}
		if b.IsConst() {
			if b.C == 0 {
				return a
			}
			if b.C == mask(w) {
				return b
			}
		}
		if a == b {
			return a
		}
		if m := s.mergeDisjoint(a, b); m != nil {
			return m
		}
	case OpXor:
		if a.IsConst() {
			a, b = b, a
		}
		if b.IsConst() && b.C == 0 {
			return a
		}
		if a == b {
			return K(w, 0)
		}
	case OpShl, OpLShr:
		if b.IsConst() {
			if b.C == 0 {
				return a
			}
			if b.C >= uint64(w) {
				return K(w, 0)
			}
			if op == OpShl {
				// x << k  ==  concat(extract(w-1-k,0,x), 0_k)
				k := int(b.C)
				return s.Concat(s.Extract(a, w-1-k, 0), K(k, 0))
			}
			k := int(b.C)
			return s.ZExt(s.Extract(a, w-1, k), w)
		}
		if a.IsConst() && a.C == 0 {
			return a
		}
	case OpAShr:
		if b.IsConst() && b.C == 0 {
			return a
		}
	}
	return s.mk(op, w, 0, 0, a, b)
}

func (s *TermStore) Un(op Op, a *Term) *Term {
	if a.W == 0 {
		panic("Un on bool")
	}
	if a.IsConst() {
		switch op {
		case OpNot:
			return K(a.W, ^a.C)
		case OpNeg:
			return K(a.W, -a.C)
		}
	}
	if a.Op == op {
		return a.A[0]
	}
	return s.mk(op, a.W, 0, 0, a)
}

func (s *TermStore) Concat(hi, lo *Term) *Term {
	if hi.W == 0 || lo.W == 0 {
		panic("Concat on bool")
	}
	w := hi.W + lo.W
	if w > 64 {
		panic("Concat wider than 64")
	}
	if hi.IsConst() && lo.IsConst() {
		return K(w, hi.C<<uint(lo.W)|lo.C)
	}
	// concat(extract(h,m+1,x), extract(m,l,x)) = extract(h,l,x)
	if hi.Op == OpExtract && lo.Op == OpExtract && hi.A[0] == lo.A[0] && hi.P1 == lo.P0+1 {
		return s.Extract(hi.A[0], hi.P0, lo.P1)
	}
	// canonical nesting: left-associated
	if lo.Op == OpConcat {
		return s.Concat(s.Concat(hi, lo.A[0]), lo.A[1])
	}
	// zero high part is a zero extension
	if hi.IsConst() && hi.C == 0 {
		return s.ZExt(lo, w)
	}
	if hi.Op == OpZExt {
		return s.ZExt(s.Concat(hi.A[0], lo), w)
	}
	// concat(x, extract(m,l,y)) where x ends with extract(h,m+1,y): merge at the seam
	if hi.Op == OpConcat && hi.A[1].Op == OpExtract && lo.Op == OpExtract && hi.A[1].A[0] == lo.A[0] && hi.A[1].P1 == lo.P0+1 {
		return s.Concat(hi.A[0], s.Extract(lo.A[0], hi.A[1].P0, lo.P1))
	}
	return s.mk(OpConcat, w, 0, 0, hi, lo)
}

// seg is a piece of a word, most significant first; t == nil means zero bits.
type seg struct {
	w int
	t *Term
}

func (s *TermStore) segsOf(t *Term, out []seg) []seg {
	switch t.Op {
	case OpConst:
		if t.C == 0 {
			return append(out, seg{t.W, nil})
		}
	case OpConcat:
		out = s.segsOf(t.A[0], out)
		return s.segsOf(t.A[1], out)
	case OpZExt:
		out = append(out, seg{t.W - t.A[0].W, nil})
		return s.segsOf(t.A[0], out)
	}
	return append(out, seg{t.W, t})
}

func hasZeroSeg(t *Term) bool {
	switch t.Op {
	case OpZExt:
		return true
	case OpConcat:
		return hasZeroSeg(t.A[0]) || hasZeroSeg(t.A[1])
	case OpConst:
		return t.C == 0
	}
	return false
}

// mergeDisjoint returns a|b as a concatenation when the operands occupy disjoint
// bit ranges (byte-assembly code: x<<24 | y<<16 | ...), else nil. The result is
// canonical, so differently written assemblies of the same bytes hash-cons to
// the same term.
func (s *TermStore) mergeDisjoint(a, b *Term) *Term {
	if !hasZeroSeg(a) || !hasZeroSeg(b) {
		return nil
	}
	sa := s.segsOf(a, nil)
	sb := s.segsOf(b, nil)
	var pieces []seg
	i, j := 0, 0
	var ra, rb seg // remaining parts of the current segments
	take := func(x seg, n int) (head, rest seg) {
		if n == x.w {
			return x, seg{}
		}
		if x.t == nil {
			return seg{n, nil}, seg{x.w - n, nil}
		}
		return seg{n, s.Extract(x.t, x.w-1, x.w-n)}, seg{x.w - n, s.Extract(x.t, x.w-n-1, 0)}
	}
	for {
		if ra.w == 0 {
			if i >= len(sa) {
				break
			}
			ra = sa[i]
			i++
		}
		if rb.w == 0 {
			if j >= len(sb) {
				break
			}
			rb = sb[j]
			j++
		}
		n := ra.w
		if rb.w < n {
			n = rb.w
		}
		if ra.t != nil && rb.t != nil {
			return nil
		}
		var ha, hb seg
		ha, ra = take(ra, n)
		hb, rb = take(rb, n)
		if ha.t != nil {
			pieces = append(pieces, ha)
		} else {
			pieces = append(pieces, hb)
		}
	}
	var acc *Term
	for _, p := range pieces {
		pt := p.t
		if pt == nil {
			pt = K(p.w, 0)
		}
		if acc == nil {
			acc = pt
		} else {
			acc = s.Concat(acc, pt)
		}
	}
	return acc
}

// Extract bits hi..lo (inclusive).
func (s *TermStore) Extract(a *Term, hi, lo int) *Term {
	if a.W == 0 || hi >= a.W || lo < 0 || hi < lo {
		panic(fmt.Sprintf("Extract [%d:%d] of width %d", hi, lo, a.W))
	}
	w := hi - lo + 1
	if w == a.W {
		return a
	}
	if a.IsConst() {
		return K(w, a.C>>uint(lo))
	}
	switch a.Op {
	case OpExtract:
		return s.Extract(a.A[0], hi+a.P1, lo+a.P1)
	case OpConcat:
		lw := a.A[1].W
		if hi < lw {
			return s.Extract(a.A[1], hi, lo)
		}
		if lo >= lw {
			return s.Extract(a.A[0], hi-lw, lo-lw)
		}
		return s.Concat(s.Extract(a.A[0], hi-lw, 0), s.Extract(a.A[1], lw-1, lo))
	case OpZExt:
		iw := a.A[0].W
		if hi < iw {
			return s.Extract(a.A[0], hi, lo)
		}
		if lo >= iw {
			return K(w, 0)
		}
		return s.ZExt(s.Extract(a.A[0], iw-1, lo), w)
	case OpSExt:
		iw := a.A[0].W
		if hi < iw {
			return s.Extract(a.A[0], hi, lo)
		}
	case OpAnd, OpOr, OpXor:
		// push extraction through bitwise ops when it isolates pieces (byte-wise code)
		x := s.Extract(a.A[0], hi, lo)
		y := s.Extract(a.A[1], hi, lo)
		if x.IsConst() || y.IsConst() || x.Op == OpExtract || y.Op == OpExtract {
			return s.Bin(a.Op, x, y)
		}
	case OpIte:
		if a.A[1].IsConst() && a.A[2].IsConst() {
			return s.Ite(a.A[0], s.Extract(a.A[1], hi, lo), s.Extract(a.A[2], hi, lo))
		}
	}
	return s.mk(OpExtract, w, hi, lo, a)
}

func (s *TermStore) ZExt(a *Term, w int) *Term {
	if a.W == 0 || w < a.W {
		panic("ZExt")
	}
	if w == a.W {
		return a
	}
	if a.IsConst() {
		return K(w, a.C)
	}
	if a.Op == OpZExt {
		return s.ZExt(a.A[0], w)
	}
	return s.mk(OpZExt, w, w-a.W, 0, a)
}

func (s *TermStore) SExt(a *Term, w int) *Term {
	if a.W == 0 || w < a.W {
		panic("SExt")
	}
	if w == a.W {
		return a
	}
	if a.IsConst() {
		return K(w, uint64(sext(a.C, a.W)))
	}
	if a.Op == OpZExt { // sign bit known zero
		return s.ZExt(a.A[0], w)
	}
	return s.mk(OpSExt, w, w-a.W, 0, a)
}

// Resize converts a to width w, sign- or zero-extending from its own width.
func (s *TermStore) Resize(a *Term, w int, signed bool) *Term {
	switch {
	case w == a.W:
		return a
	case w < a.W:
		return s.Extract(a, w-1, 0)
	case signed:
		return s.SExt(a, w)
	default:
		return s.ZExt(a, w)
	}
}

// ---- printing ----

func sortName(w int) string {
	if w == 0 {
		return "Bool"
	}
	return fmt.Sprintf("(_ BitVec %d)", w)
}

func constLit(t *Term) string {
	if t.W == 0 {
		if t.C == 1 {
			return "true"
		}
		return "false"
	}
	return fmt.Sprintf("(_ bv%d %d)", t.C, t.W)
}

func quoteSym(n string) string {
	return "|" + strings.NewReplacer("|", "_", "\\", "_").Replace(n) + "|"
}

// String renders a term as a (possibly large) s-expression; used for samples only.
func (t *Term) String() string {
	var sb strings.Builder
	t.write(&sb, 0)
	return sb.String()
}

func (t *Term) write(sb *strings.Builder, depth int) {
	if sb.Len() > 4000 {
		sb.WriteString("…")
		return
	}
	switch t.Op {
	case OpConst:
		if t.W == 0 {
			sb.WriteString(constLit(t))
		} else {
			fmt.Fprintf(sb, "%d", t.C)
		}
	case OpVar:
		sb.WriteString(t.Name)
	case OpExtract:
		fmt.Fprintf(sb, "([%d:%d] ", t.P0, t.P1)
		t.A[0].write(sb, depth+1)
		sb.WriteString(")")
	case OpZExt, OpSExt:
		if t.Op == OpZExt {
			fmt.Fprintf(sb, "(zext%d ", t.W)
		} else {
			fmt.Fprintf(sb, "(sext%d ", t.W)
		}
		t.A[0].write(sb, depth+1)
		sb.WriteString(")")
	default:
		sb.WriteString("(")
		sb.WriteString(opNames[t.Op])
		for i := 0; i < t.N; i++ {
			sb.WriteString(" ")
			t.A[i].write(sb, depth+1)
		}
		sb.WriteString(")")
	}
}
