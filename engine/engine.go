package main

// Program loading, package-level state, and the path explorer.

import (
	"crypto/sha256"
	"encoding/hex"
	"fmt"
	"go/token"
	"go/types"
	"os"
	"path/filepath"
	"runtime/debug"
	"sort"
	"strings"
	"sync"
	"sync/atomic"
	"time"

	"golang.org/x/tools/go/packages"
	"golang.org/x/tools/go/ssa"
	"golang.org/x/tools/go/ssa/ssautil"
)

type intrinsic func(ex *Exec, fr *frame, args []Value) Value

type Engine struct {
	prog      *ssa.Program
	pkgs      []*packages.Package
	fset      *token.FileSet
	intr      map[string]intrinsic
	intrCache sync.Map // *ssa.Function -> intrinsic (or nil marker)
	buildMu   sync.Mutex

	initMu   sync.Mutex
	pristine map[*ssa.Global]*Value
	pkgInit  map[*ssa.Package]string // "" = ok, else reason it is poisoned; absent = not run
	errType  types.Type

	knownActive   map[string]bool
	skipGo        map[string]bool
	solverBin     string
	solverArgs    []string
	workers       int
	maxSteps      int64
	maxDecisions  int
	maxPaths      int64
	teeDir        string
	teeMax        int64
	teeN          atomic.Int64
	verbose       bool
	srcHashMu     sync.Mutex
	srcHash       map[string]string
	overlaySrc    map[string][]byte
	validateEvery int64
	prefixIntr    []prefixIntrinsic
	params        map[string]int64
}

type LoadConfig struct {
	Dir      string
	Patterns []string
	Tags     string
	Overlay  map[string][]byte
}

func LoadProgram(cfg LoadConfig) (*Engine, error) {
	env := os.Environ()
	var env2 []string
	for _, e := range env {
		// The repository selects its own toolchain (go.mod); never force GOSUMDB=off.
		if strings.HasPrefix(e, "GOTOOLCHAIN=") || strings.HasPrefix(e, "GOFLAGS=") || strings.HasPrefix(e, "GOSUMDB=") {
			continue
		}
		env2 = append(env2, e)
	}
	env2 = append(env2, "GOFLAGS=-mod=mod", "GOPROXY=off", "GOTOOLCHAIN=auto")
	pc := &packages.Config{
		Mode:    packages.LoadAllSyntax,
		Dir:     cfg.Dir,
		Env:     env2,
		Overlay: cfg.Overlay,
		Tests:   false,
	}
	if cfg.Tags != "" {
		pc.BuildFlags = []string{"-tags=" + cfg.Tags}
	}
	pkgs, err := packages.Load(pc, cfg.Patterns...)
	if err != nil {
		return nil, err
	}
	var errs []string
	packages.Visit(pkgs, nil, func(p *packages.Package) {
		for _, e := range p.Errors {
			errs = append(errs, e.Error())
		}
	})
	if len(errs) > 0 {
		if len(errs) > 20 {
			errs = errs[:20]
		}
		return nil, fmt.Errorf("package errors:\n%s", strings.Join(errs, "\n"))
	}
	prog, spkgs := ssautil.AllPackages(pkgs, ssa.InstantiateGenerics|ssa.SanityCheckFunctions&0)
	_ = spkgs
	// Build every package before any worker starts: lazily building a package while
	// another worker interprets one of its functions would race on the SSA.
	t0 := time.Now()
	prog.Build()
	if os.Getenv("GOSYM_TIMING") != "" {
		fmt.Fprintf(os.Stderr, "ssa build of all packages: %.1fs\n", time.Since(t0).Seconds())
	}
	e := &Engine{
		prog: prog, pkgs: pkgs, fset: prog.Fset,
		intr:        map[string]intrinsic{},
		pristine:    map[*ssa.Global]*Value{},
		pkgInit:     map[*ssa.Package]string{},
		knownActive: map[string]bool{},
		skipGo:      map[string]bool{},
		solverBin:   "z3", solverArgs: []string{"-in", "-smt2"},
		workers: 16, maxSteps: 20_000_000, maxDecisions: 4000, maxPaths: 5_000_000,
		srcHash: map[string]string{},
	}
	registerIntrinsics(e)
	return e, nil
}

func (e *Engine) buildFn(fn *ssa.Function) {
	e.buildMu.Lock()
	defer e.buildMu.Unlock()
	if fn.Blocks != nil {
		return
	}
	if fn.Pkg != nil {
		fn.Pkg.Build()
	}
}

func (e *Engine) runtimeErrType() types.Type {
	if e.errType != nil {
		return e.errType
	}
	e.errType = types.NewNamed(types.NewTypeName(token.NoPos, nil, "runtime.Error", nil), types.NewStruct(nil, nil), nil)
	return e.errType
}

func (e *Engine) intrinsicFor(fn *ssa.Function) intrinsic {
	if v, ok := e.intrCache.Load(fn); ok {
		in, _ := v.(intrinsic)
		return in
	}
	name := fnName(fn)
	in := e.intr[name]
	if in == nil {
		for _, p := range e.prefixIntr {
			if p.match(name) {
				in = p.in
				break
			}
		}
	}
	if in == nil {
		e.intrCache.Store(fn, false)
		return nil
	}
	e.intrCache.Store(fn, in)
	return in
}

// findHarness looks a function up by name in the initial packages.
func (e *Engine) findHarness(name string) *ssa.Function {
	for _, p := range e.pkgs {
		if sp := e.prog.Package(p.Types); sp != nil {
			if f := sp.Func(name); f != nil {
				return f
			}
		}
	}
	return nil
}

func (e *Engine) findFunc(pkgPath, name string) *ssa.Function {
	for _, p := range e.prog.AllPackages() {
		if p.Pkg.Path() == pkgPath {
			return p.Func(name)
		}
	}
	return nil
}

// ---- package-level state ----

type poisonVal struct{ reason string }

// pristineGlobal returns the cell of g after its package initialiser ran (once).
func (e *Engine) pristineGlobal(g *ssa.Global) (*Value, string) {
	e.initMu.Lock()
	defer e.initMu.Unlock()
	return e.pristineLocked(g)
}

func (e *Engine) pristineLocked(g *ssa.Global) (*Value, string) {
	pkg := g.Pkg
	if _, done := e.pkgInit[pkg]; !done {
		e.pkgInit[pkg] = "" // mark first: init bodies read their own globals
		for _, m := range pkg.Members {
			if gg, ok := m.(*ssa.Global); ok {
				cell := zero(deref(gg.Type()))
				e.pristine[gg] = &cell
			}
		}
		if reason := e.runPkgInit(pkg); reason != "" {
			e.pkgInit[pkg] = reason
			if e.verbose {
				fmt.Fprintln(os.Stderr, "INIT-POISON:", reason)
			}
		}
	}
	return e.pristine[g], e.pkgInit[pkg]
}

// runPkgInit interprets pkg's own initialiser concretely. Calls into other
// packages' initialisers are skipped (those run lazily when first touched).
func (e *Engine) runPkgInit(pkg *ssa.Package) (reason string) {
	pkg.Build()
	initFn := pkg.Func("init")
	if initFn == nil || len(initFn.Blocks) == 0 {
		return ""
	}
	if skipInitPkgs[pkg.Pkg.Path()] {
		return "package initialiser not modelled: " + pkg.Pkg.Path()
	}
	ex := &Exec{
		eng: e, ts: NewTermStore(), occ: map[string]int{}, choices: map[string]uint64{},
		maxSteps: 200_000_000, maxDecisions: 0, globals: map[*ssa.Global]*Value{},
		res: &PathResult{Reached: map[string]int{}}, ghost: map[string]any{}, initMode: true, initPkg: pkg, gmemo: map[any]any{},
	}
	defer func() {
		if r := recover(); r != nil {
			switch r := r.(type) {
			case pathAbort:
				reason = "init of " + pkg.Pkg.Path() + ": " + r.msg
			case targetPanic:
				reason = "init of " + pkg.Pkg.Path() + " panicked: " + r.msg
			default:
				reason = fmt.Sprintf("init of %s: engine error: %v\n%s", pkg.Pkg.Path(), r, debug.Stack())
			}
		}
	}()
	ex.callSSA(nil, token.NoPos, initFn, nil, nil)
	return ""
}

var skipInitPkgs = map[string]bool{
	"runtime": true, "syscall": true, "internal/cpu": true, "internal/poll": true,
	"reflect": true, "unicode": false,
}

func (ex *Exec) globalAddr(g *ssa.Global) *Value {
	if ex.initMode {
		// during package init: direct access to pristine cells (lock is held)
		p, _ := ex.eng.pristineLocked(g)
		return p
	}
	if p, ok := ex.globals[g]; ok {
		return p
	}
	pr, reason := ex.eng.pristineGlobal(g)
	if reason != "" {
		ex.unsupported("global %s unavailable (%s)", g, reason)
	}
	cp := ex.deepCopy(pr).(*Value)
	ex.globals[g] = cp
	return cp
}

// deepCopy copies package-level state for this path, preserving aliasing.
func (ex *Exec) deepCopy(v Value) Value {
	switch v := v.(type) {
	case *Value:
		if v == nil {
			return v
		}
		if c, ok := ex.gmemo[v]; ok {
			return c.(*Value)
		}
		n := new(Value)
		ex.gmemo[v] = n
		*n = ex.deepCopy(*v)
		return n
	case structure:
		c := make(structure, len(v))
		for i, f := range v {
			c[i] = ex.deepCopy(f)
		}
		return c
	case array:
		c := make(array, len(v))
		for i, f := range v {
			c[i] = ex.deepCopy(f)
		}
		return c
	case []Value:
		if v == nil {
			return v
		}
		full := v[:cap(v)]
		if len(full) == 0 {
			return []Value{}
		}
		key := &full[0]
		if c, ok := ex.gmemo[key]; ok {
			return c.([]Value)[:len(v)]
		}
		n := make([]Value, len(full))
		ex.gmemo[key] = n
		for i, f := range full {
			n[i] = ex.deepCopy(f)
		}
		return n[:len(v)]
	case *Map:
		if v == nil {
			return v
		}
		if c, ok := ex.gmemo[v]; ok {
			return c.(*Map)
		}
		n := &Map{keyT: v.keyT, valT: v.valT}
		ex.gmemo[v] = n
		for _, e := range v.entries {
			n.entries = append(n.entries, &mapEntry{k: ex.deepCopy(e.k), v: ex.deepCopy(e.v)})
		}
		n.reindex()
		return n
	case iface:
		return iface{t: v.t, v: ex.deepCopy(v.v)}
	case *Chan:
		if v == nil {
			return v
		}
		if c, ok := ex.gmemo[v]; ok {
			return c.(*Chan)
		}
		n := &Chan{cap: v.cap, closed: v.closed, elemT: v.elemT}
		ex.gmemo[v] = n
		for _, e := range v.buf {
			n.buf = append(n.buf, ex.deepCopy(e))
		}
		return n
	case tuple:
		c := make(tuple, len(v))
		for i, f := range v {
			c[i] = ex.deepCopy(f)
		}
		return c
	case *closure:
		if v == nil || len(v.Env) == 0 {
			return v
		}
		if c, ok := ex.gmemo[v]; ok {
			return c.(*closure)
		}
		n := &closure{Fn: v.Fn}
		ex.gmemo[v] = n
		for _, e := range v.Env {
			n.Env = append(n.Env, ex.deepCopy(e))
		}
		return n
	case poisonVal:
		return v
	}
	return v
}

// ---- exploration ----

type HarnessReport struct {
	Harness          string
	Paths            int64
	Completed        int64
	Infeasible       int64
	Decisions        int64
	Obligations      int64
	Discharged       int64
	Violations       []Violation
	Inconclusive     []string
	Unsupported      []string
	BudgetFails      []string
	Reached          map[string]int
	Labels           []string // assertion labels found statically in the harness
	Samples          []map[string]any
	ValidationModels []map[string]any  // models of passing paths for native validation
	Funcs            map[string]string // function -> source hash
	MaxSteps         int64
	Steps            int64
	NMulSym          int64
	Wall             float64
	Panics           int64
	Truncated        bool
}

type workItem struct {
	prefix []int32
	vals   []uint64
}

func (e *Engine) Explore(h *ssa.Function, seed int64, nValidate int) *HarnessReport {
	rep := &HarnessReport{Harness: h.String(), Reached: map[string]int{}, Funcs: map[string]string{}}
	rep.Labels = staticLabels(h)
	t0 := time.Now()
	var mu sync.Mutex
	cond := sync.NewCond(&mu)
	stack := []workItem{{}}
	active := 0
	var paths, nSamples atomic.Int64
	funcs := map[*ssa.Function]bool{}
	truncated := false

	worker := func(id int) {
		sess, err := NewSession(e.solverBin, e.solverArgs)
		if err != nil {
			mu.Lock()
			rep.Inconclusive = append(rep.Inconclusive, "cannot start solver: "+err.Error())
			mu.Unlock()
			return
		}
		defer sess.Close()
		if e.teeDir != "" {
			sess.teeDir, sess.teeN, sess.teeMax = e.teeDir, &e.teeN, e.teeMax
		}
		if e.params["_tactic"] == 1 || os.Getenv("GOSYM_TACTIC_ONLY") != "" {
			sess.tacticOnly = true
		}
		for {
			mu.Lock()
			for len(stack) == 0 && active > 0 {
				cond.Wait()
			}
			if len(stack) == 0 {
				mu.Unlock()
				cond.Broadcast()
				return
			}
			it := stack[len(stack)-1]
			stack = stack[:len(stack)-1]
			active++
			mu.Unlock()

			n := paths.Add(1)
			var res *PathResult
			if n > e.maxPaths {
				res = &PathResult{Aborted: &pathAbort{abBudget, "path budget exhausted"}, Reached: map[string]int{}}
				mu.Lock()
				truncated = true
				stack = stack[:0]
				mu.Unlock()
			} else {
				// sample every k-th path, and every path while too few usable samples exist
				want := nValidate > 0 && int(nSamples.Load()) < nValidate && ((n%int64(max64(1, e.validateEvery))) == 0 || n <= 200)
				res = e.runPathVals(sess, h, it.prefix, it.vals, want)
				if sess.cmd == nil || res.Aborted != nil && res.Aborted.kind == abSolver {
					// restart a dead solver
					sess.Close()
					if ns, err := NewSession(e.solverBin, e.solverArgs); err == nil {
						*sess = *ns
					}
				}
			}

			mu.Lock()
			for _, f := range res.Forks {
				stack = append(stack, workItem{f.dec, f.vals})
			}
			rep.Paths++
			rep.Decisions += int64(len(res.Decisions))
			rep.Obligations += int64(res.Obligations)
			rep.Discharged += int64(res.Discharged)
			rep.Steps += res.Steps
			rep.NMulSym += int64(res.NMulSym)
			if res.Steps > rep.MaxSteps {
				rep.MaxSteps = res.Steps
			}
			for k, v := range res.Reached {
				rep.Reached[k] += v
			}
			for f := range res.FuncsUsed {
				funcs[f] = true
			}
			if len(rep.Violations) < 50 {
				rep.Violations = append(rep.Violations, res.Violations...)
			}
			if len(rep.Inconclusive) < 50 {
				rep.Inconclusive = append(rep.Inconclusive, res.Inconclusive...)
			}
			if res.Aborted != nil {
				switch res.Aborted.kind {
				case abInfeasible:
					rep.Infeasible++
				case abUnsupported, abSolver:
					if len(rep.Unsupported) < 50 {
						rep.Unsupported = append(rep.Unsupported, res.Aborted.msg)
					}
				case abBudget:
					if len(rep.BudgetFails) < 50 {
						rep.BudgetFails = append(rep.BudgetFails, res.Aborted.msg)
					}
				case abStop:
					rep.Completed++
				}
			} else {
				rep.Completed++
			}
			if res.Panicked != "" {
				rep.Panics++
			}
			if len(rep.Samples) < 5 && res.Aborted == nil {
				rep.Samples = append(rep.Samples, map[string]any{
					"decisions": fmt.Sprint(res.Decisions), "pc": res.PCString,
					"obligations": res.Obligations, "discharged": res.Discharged,
					"observed": res.Observed,
				})
			}
			if res.SampleModel != nil && len(rep.ValidationModels) < nValidate && !usesInjection(res.SampleModel) {
				nSamples.Add(1)
				rep.ValidationModels = append(rep.ValidationModels, map[string]any{
					"inputs": res.SampleModel, "observed": res.Observed, "panicked": res.Panicked,
				})
			}
			active--
			mu.Unlock()
			cond.Broadcast()
		}
	}
	var wg sync.WaitGroup
	for i := 0; i < e.workers; i++ {
		wg.Add(1)
		go func(id int) { defer wg.Done(); worker(id) }(i)
	}
	wg.Wait()
	rep.Truncated = truncated
	for f := range funcs {
		rep.Funcs[f.String()] = e.funcHash(f)
	}
	rep.Wall = time.Since(t0).Seconds()
	sort.Strings(rep.Unsupported)
	return rep
}

func max64(a, b int64) int64 {
	if a > b {
		return a
	}
	return b
}

// runPath executes the harness once along the given decision prefix.
// ReplayConcrete re-executes the harness with every input fixed to the given
// values (no symbolic state at all) and returns what the assertions say. Used to
// confirm a solver model where the native process cannot be made to fail a system
// call or to die at a chosen instant.
func (e *Engine) ReplayConcrete(h *ssa.Function, inputs map[string]uint64) (*PathResult, error) {
	sess, err := NewSession(e.solverBin, e.solverArgs)
	if err != nil {
		return nil, err
	}
	defer sess.Close()
	return e.runPath(sess, h, nil, false, inputs), nil
}

func (e *Engine) runPath(sess *Session, h *ssa.Function, prefix []int32, wantSample bool, replay ...map[string]uint64) (res *PathResult) {
	return e.runPathVals(sess, h, prefix, nil, wantSample, replay...)
}

func (e *Engine) runPathVals(sess *Session, h *ssa.Function, prefix []int32, vals []uint64, wantSample bool, replay ...map[string]uint64) (res *PathResult) {
	ex := &Exec{
		prefixVals: vals,
		eng:        e, ts: NewTermStore(), sess: sess, prefix: prefix,
		occ: map[string]int{}, choices: map[string]uint64{},
		maxSteps: e.maxSteps, maxDecisions: e.maxDecisions,
		globals: map[*ssa.Global]*Value{}, gmemo: map[any]any{},
		res:   &PathResult{Reached: map[string]int{}, FuncsUsed: map[*ssa.Function]bool{}},
		ghost: map[string]any{}, wantSample: wantSample,
	}
	if len(replay) > 0 && replay[0] != nil {
		ex.replay = replay[0]
	}
	res = ex.res
	sess.BeginPath()
	defer func() {
		r := recover()
		res.Decisions = ex.taken
		res.Steps = ex.steps
		res.NMulSym = ex.ts.nMulSym
		if r != nil {
			switch r := r.(type) {
			case pathAbort:
				res.Aborted = &r
			case targetPanic:
				// a Go panic escaped the harness: implicit obligation "no panic"
				res.Panicked = r.msg
				res.Obligations++
				rr, m := ex.safeModel()
				if rr == Sat {
					res.Violations = append(res.Violations, Violation{Label: "no-panic", Kind: "panic", Inputs: m,
						Decision: append([]int32(nil), ex.taken...), Detail: r.msg, Observed: res.Observed})
				} else {
					res.Inconclusive = append(res.Inconclusive, "panic path without model: "+r.msg)
				}
			default:
				var cs []string
				for i := len(ex.callStack) - 1; i >= 0 && i >= len(ex.callStack)-6; i-- {
					cs = append(cs, ex.callStack[i].String())
				}
				msg := fmt.Sprintf("engine error: %v in %s", r, strings.Join(cs, " < "))
				if e.verbose {
					msg += "\n" + trimStack(debug.Stack())
				}
				res.Aborted = &pathAbort{abUnsupported, msg}
			}
		}
		if res.Aborted == nil && res.Panicked == "" {
			res.PCString = ex.pcString()
			if wantSample {
				if rr, m := ex.safeModel(); rr == Sat {
					res.SampleModel = m
					obs := append([]string(nil), res.Observed...)
					for _, ot := range ex.obsTerms {
						obs[ot.idx] = fmt.Sprintf("%s=%d", ot.name, evalTerm(ot.t, m))
					}
					res.Observed = obs
				}
			}
		}
		func() {
			defer func() { recover() }()
			sess.EndPath()
		}()
	}()
	ex.callSSA(nil, token.NoPos, h, nil, nil)
	return res
}

func (ex *Exec) safeModel() (r SatResult, m map[string]uint64) {
	defer func() {
		if recover() != nil {
			r, m = Unknown, nil
		}
	}()
	return ex.modelFor(nil)
}

func trimStack(b []byte) string {
	s := string(b)
	lines := strings.Split(s, "\n")
	var keep []string
	for _, l := range lines {
		if strings.Contains(l, "/verif/engine/") || strings.HasPrefix(l, "main.") {
			keep = append(keep, strings.TrimSpace(l))
		}
		if len(keep) > 24 {
			break
		}
	}
	return strings.Join(keep, "\n")
}

// staticLabels collects the constant labels of vx.Assert calls reachable from h
// inside its own file (the harness and its helpers).
func staticLabels(h *ssa.Function) []string {
	seen := map[*ssa.Function]bool{}
	labels := map[string]bool{}
	file := h.Prog.Fset.Position(h.Pos()).Filename
	var visit func(f *ssa.Function)
	visit = func(f *ssa.Function) {
		if f == nil || seen[f] || f.Blocks == nil {
			return
		}
		seen[f] = true
		for _, b := range f.Blocks {
			for _, in := range b.Instrs {
				var cc *ssa.CallCommon
				switch in := in.(type) {
				case *ssa.Call:
					cc = &in.Call
				case *ssa.Defer:
					cc = &in.Call
				case *ssa.MakeClosure:
					visit(in.Fn.(*ssa.Function))
				}
				if cc == nil {
					continue
				}
				callee := cc.StaticCallee()
				if callee == nil {
					continue
				}
				if callee.Pkg != nil && strings.HasSuffix(callee.Pkg.Pkg.Path(), "internal/vx") && callee.Name() == "Assert" {
					if c, ok := cc.Args[0].(*ssa.Const); ok {
						labels[strings.Trim(c.Value.ExactString(), "\"")] = true
					}
					continue
				}
				if callee.Pos().IsValid() && h.Prog.Fset.Position(callee.Pos()).Filename == file {
					visit(callee)
				}
			}
		}
		for _, af := range f.AnonFuncs {
			visit(af)
		}
	}
	visit(h)
	return sortedKeys(labels)
}

func (e *Engine) funcHash(f *ssa.Function) string {
	syn := f.Syntax()
	if syn == nil {
		return "synthetic"
	}
	start := e.fset.Position(syn.Pos())
	end := e.fset.Position(syn.End())
	if !start.IsValid() || !end.IsValid() {
		return "nopos"
	}
	e.srcHashMu.Lock()
	defer e.srcHashMu.Unlock()
	key := fmt.Sprintf("%s:%d-%d", start.Filename, start.Offset, end.Offset)
	if h, ok := e.srcHash[key]; ok {
		return h
	}
	var data []byte
	if ov, ok := e.overlaySrc[start.Filename]; ok {
		data = ov
	} else {
		data, _ = os.ReadFile(start.Filename)
	}
	h := "unreadable"
	if end.Offset <= len(data) && start.Offset <= end.Offset {
		sum := sha256.Sum256(data[start.Offset:end.Offset])
		h = filepath.Base(start.Filename) + ":" + fmt.Sprint(start.Line) + ":" + hex.EncodeToString(sum[:6])
	}
	e.srcHash[key] = h
	return h
}
