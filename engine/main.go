package main

import (
	"encoding/json"
	"flag"
	"fmt"
	"os"
	"path/filepath"
	"strconv"
	"strings"
)

func main() {
	if len(os.Args) < 2 {
		fmt.Fprintln(os.Stderr, "usage: gosym run|check|replay ...")
		os.Exit(2)
	}
	switch os.Args[1] {
	case "run":
		cmdRun(os.Args[2:])
	case "check":
		os.Exit(cmdCheck(os.Args[2:]))
	default:
		fmt.Fprintln(os.Stderr, "unknown command", os.Args[1])
		os.Exit(2)
	}
}

// overlayFor maps harness source files into the repository tree (in memory only).
func overlayFor(repo string, files map[string]string) (map[string][]byte, error) {
	ov := map[string][]byte{}
	for dst, src := range files {
		data, err := os.ReadFile(src)
		if err != nil {
			return nil, err
		}
		ov[filepath.Join(repo, dst)] = data
	}
	return ov, nil
}

type strList []string

func (s *strList) String() string     { return strings.Join(*s, ",") }
func (s *strList) Set(v string) error { *s = append(*s, v); return nil }

// cmdRun explores one harness and dumps the raw report (development aid).
func cmdRun(args []string) {
	fs := flag.NewFlagSet("run", flag.ExitOnError)
	repo := fs.String("repo", "/repo", "repository root")
	pkg := fs.String("pkg", ".", "package pattern (relative to repo)")
	tags := fs.String("tags", "", "build tags")
	dir := fs.String("hdir", "", "harness directory whose *.go files are overlaid into the package directory")
	files := fs.String("files", "", "comma-separated dst=src overlay files (dst relative to repo)")
	fn := fs.String("func", "", "harness function name")
	workers := fs.Int("workers", 16, "workers")
	verbose := fs.Bool("v", false, "verbose")
	var params strList
	fs.Var(&params, "p", "harness parameter NAME=VALUE (repeatable)")
	fs.Parse(args)
	fm := map[string]string{"internal/vx/vx.go": "/verif/vx/vx.go"}
	for _, kv := range strings.Split(*files, ",") {
		if kv == "" {
			continue
		}
		p := strings.SplitN(kv, "=", 2)
		fm[p[0]] = p[1]
	}
	if *dir != "" {
		ents, _ := os.ReadDir(*dir)
		for _, e := range ents {
			if strings.HasSuffix(e.Name(), ".go") {
				fm[filepath.Join(*pkg, e.Name())] = filepath.Join(*dir, e.Name())
			}
		}
	}
	ov, err := overlayFor(*repo, fm)
	if err != nil {
		fmt.Fprintln(os.Stderr, err)
		os.Exit(2)
	}
	pat := *pkg
	if !strings.HasPrefix(pat, ".") {
		pat = "./" + pat
	}
	eng, err := LoadProgram(LoadConfig{Dir: *repo, Patterns: []string{pat}, Tags: *tags, Overlay: ov})
	if err != nil {
		fmt.Fprintln(os.Stderr, "load:", err)
		os.Exit(2)
	}
	eng.overlaySrc = ov
	eng.workers = *workers
	eng.verbose = *verbose
	eng.params = map[string]int64{}
	for _, kv := range params {
		p := strings.SplitN(kv, "=", 2)
		v, _ := strconv.ParseInt(p[1], 10, 64)
		eng.params[p[0]] = v
	}
	var h = eng.findHarness(*fn)
	if h == nil {
		fmt.Fprintln(os.Stderr, "no such harness:", *fn)
		os.Exit(2)
	}
	rep := eng.Explore(h, 0, 0)
	rep.Funcs = nil
	rep.Unsupported = uniq(rep.Unsupported)
	rep.Inconclusive = uniq(rep.Inconclusive)
	rep.BudgetFails = uniq(rep.BudgetFails)
	if len(rep.Violations) > 3 {
		rep.Violations = rep.Violations[:3]
	}
	out, _ := json.MarshalIndent(rep, "", " ")
	fmt.Println(string(out))
	fmt.Fprintf(os.Stderr, "paths=%d completed=%d infeasible=%d queries=%d sat=%d unsat=%d unknown=%d errors=%d fallbacks=%d solver_s=%.2f wall=%.1f\n",
		rep.Paths, rep.Completed, rep.Infeasible,
		gStats.Queries, gStats.SatN, gStats.UnsatN, gStats.UnknownN, gStats.Errors, gStats.Fallbacks, float64(gStats.Nanos)/1e9, rep.Wall)
}
