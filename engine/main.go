package main

import (
	"encoding/json"
	"flag"
	"fmt"
	"os"
	"path/filepath"
	"strconv"
	"strings"
)

func main() {
	if len(os.Args) < 2 {
		fmt.Fprintln(os.Stderr, "usage: gosym run|check ...")
		os.Exit(2)
	}
	code := 0
	switch os.Args[1] {
	case "run":
		code = cmdRun(os.Args[2:])
	case "check":
		code = cmdCheck(os.Args[2:])
	default:
		fmt.Fprintln(os.Stderr, "unknown command", os.Args[1])
		code = 2
	}
	cleanupRewrites()
	os.Exit(code)
}

// overlayFor maps harness source files into the repository tree (in memory only).
func overlayFor(repo string, files map[string]string) (map[string][]byte, error) {
	ov := map[string][]byte{}
	for dst, src := range files {
		data, err := os.ReadFile(src)
		if err != nil {
			return nil, err
		}
		ov[filepath.Join(repo, dst)] = data
	}
	return ov, nil
}

type strList []string

func (s *strList) String() string     { return strings.Join(*s, ",") }
func (s *strList) Set(v string) error { *s = append(*s, v); return nil }

// cmdRun explores one harness of a group and dumps the raw report (development aid).
func cmdRun(args []string) int {
	fs := flag.NewFlagSet("run", flag.ExitOnError)
	group := fs.String("group", "root", "harness group (see harness/mkspec.py)")
	fn := fs.String("func", "", "harness function name")
	workers := fs.Int("workers", 16, "workers")
	verbose := fs.Bool("v", false, "verbose")
	nviol := fs.Int("viol", 3, "violations to print")
	var params strList
	fs.Var(&params, "p", "harness parameter NAME=VALUE (repeatable)")
	fs.String("hdir", "", "ignored (kept for old command lines)")
	fs.Parse(args)
	spec, err := loadSpec()
	if err != nil {
		fmt.Fprintln(os.Stderr, err)
		return 2
	}
	g := spec.Groups[*group]
	if g == nil {
		fmt.Fprintln(os.Stderr, "unknown group", *group)
		return 2
	}
	fm, err := harnessOverlay(spec)
	if err != nil {
		fmt.Fprintln(os.Stderr, err)
		return 2
	}
	ov, err := overlayFor(spec.Repo, fm)
	if err != nil {
		fmt.Fprintln(os.Stderr, err)
		return 2
	}
	eng, err := LoadProgram(LoadConfig{Dir: spec.Repo, Patterns: []string{"./" + g.Pkg}, Tags: g.Tags, Overlay: ov})
	if err != nil {
		fmt.Fprintln(os.Stderr, "load:", err)
		return 2
	}
	eng.overlaySrc = ov
	eng.workers = *workers
	eng.verbose = *verbose
	eng.params = map[string]int64{}
	for _, kv := range params {
		p := strings.SplitN(kv, "=", 2)
		v, _ := strconv.ParseInt(p[1], 10, 64)
		eng.params[p[0]] = v
	}
	if v, ok := eng.params["_maxsteps"]; ok {
		eng.maxSteps = v
	}
	for _, k := range loadKnown().Findings {
		if k.Status == "known" {
			eng.knownActive[k.ID] = true
		}
	}
	h := eng.findHarness(*fn)
	if h == nil {
		fmt.Fprintln(os.Stderr, "no such harness:", *fn)
		return 2
	}
	rep := eng.Explore(h, 0, 0)
	rep.Funcs = nil
	rep.Unsupported = uniq(rep.Unsupported)
	rep.Inconclusive = uniq(rep.Inconclusive)
	rep.BudgetFails = uniq(rep.BudgetFails)
	if len(rep.Violations) > *nviol {
		rep.Violations = rep.Violations[:*nviol]
	}
	rep.Samples = nil
	out, _ := json.MarshalIndent(rep, "", " ")
	fmt.Println(string(out))
	fmt.Fprintf(os.Stderr, "paths=%d completed=%d infeasible=%d queries=%d sat=%d unsat=%d unknown=%d errors=%d fallbacks=%d badmodels=%d solver_s=%.2f wall=%.1f\n",
		rep.Paths, rep.Completed, rep.Infeasible,
		gStats.Queries, gStats.SatN, gStats.UnsatN, gStats.UnknownN, gStats.Errors, gStats.Fallbacks, gStats.BadModels, float64(gStats.Nanos)/1e9, rep.Wall)
	return 0
}
