package main

// One live solver process per worker (z3 -in). A path is a (push 1)...(pop 1)
// scope; queries are (push 1)(assert q)(check-sat)(pop 1). Any "(error" in the
// output makes the query inconclusive. All commands of the current path are
// logged so that a hard query can be re-decided one-shot (after (reset)) and so
// that queries can be teed to other solvers.

import (
	"bufio"
	"fmt"
	"io"
	"os"
	"os/exec"
	"strconv"
	"strings"
	"sync/atomic"
	"time"
)

type SatResult int

const (
	Unsat SatResult = iota
	Sat
	Unknown
)

func (r SatResult) String() string { return [...]string{"unsat", "sat", "unknown"}[r] }

type SolverStats struct {
	Queries, SatN, UnsatN, UnknownN, Errors, Fallbacks, TacticRetries, BadModels int64
	Nanos                                                             int64
}

var gStats SolverStats

type Session struct {
	cmd         *exec.Cmd
	in          io.WriteCloser
	out         *bufio.Reader
	bin         string
	args        []string
	defined     map[*Term]string
	pathLog     []string // declarations, definitions, assertions of the current path
	pending     strings.Builder
	marker      int
	timeout     int  // ms per query (tactic stage)
	incTimeout  int  // ms for the incremental stage
	tacticOnly  bool // skip the incremental stage
	hardTimeout int  // ms for the one-shot fallback
	teeDir      string
	teeN        *atomic.Int64
	teeMax      int64
	lastErr     string
}

func NewSession(bin string, args []string) (*Session, error) {
	s := &Session{bin: bin, args: args, timeout: 30000, incTimeout: 400, hardTimeout: 300000}
	if err := s.start(); err != nil {
		return nil, err
	}
	return s, nil
}

func (s *Session) start() error {
	if err := s.startProc(); err != nil {
		return err
	}
	s.defined = map[*Term]string{}
	s.pathLog = nil
	s.preamble()
	return nil
}

func (s *Session) startProc() error {
	s.cmd = exec.Command(s.bin, s.args...)
	in, err := s.cmd.StdinPipe()
	if err != nil {
		return err
	}
	out, err := s.cmd.StdoutPipe()
	if err != nil {
		return err
	}
	s.cmd.Stderr = os.Stderr
	if err := s.cmd.Start(); err != nil {
		return err
	}
	s.in = in
	s.out = bufio.NewReaderSize(out, 1<<16)
	s.pending.Reset()
	return nil
}

func (s *Session) preamble() {
	s.raw("(set-option :produce-models true)")
	if strings.Contains(s.bin, "z3") {
		s.raw(fmt.Sprintf("(set-option :timeout %d)", s.timeout))
	}
}

// respawn replaces the solver process by a fresh one (no state).
func (s *Session) respawn() error {
	defined, log := s.defined, s.pathLog
	s.Close()
	if err := s.startProc(); err != nil {
		return err
	}
	s.defined, s.pathLog = defined, log
	return nil
}

func (s *Session) Close() {
	if s.cmd != nil {
		s.in.Close()
		s.cmd.Process.Kill()
		s.cmd.Wait()
		s.cmd = nil
	}
}

func (s *Session) raw(line string) {
	s.pending.WriteString(line)
	s.pending.WriteByte('\n')
}

func (s *Session) logged(line string) {
	s.pathLog = append(s.pathLog, line)
	s.raw(line)
}

func (s *Session) flush() error {
	if s.pending.Len() == 0 {
		return nil
	}
	_, err := io.WriteString(s.in, s.pending.String())
	s.pending.Reset()
	return err
}

// BeginPath opens a fresh scope.
func (s *Session) BeginPath() {
	s.defined = map[*Term]string{}
	s.pathLog = s.pathLog[:0]
	s.raw("(push 1)")
}

func (s *Session) EndPath() {
	s.raw("(pop 1)")
	s.defined = map[*Term]string{}
	s.pathLog = s.pathLog[:0]
	// keep the pipe from growing without bound
	if s.pending.Len() > 1<<20 {
		s.flush()
	}
}

// ref returns an SMT expression naming t, emitting definitions as needed.
func (s *Session) ref(t *Term) string {
	switch t.Op {
	case OpConst:
		return constLit(t)
	}
	if n, ok := s.defined[t]; ok {
		return n
	}
	var n string
	if t.Op == OpVar {
		n = quoteSym(t.Name)
		s.logged(fmt.Sprintf("(declare-const %s %s)", n, sortName(t.W)))
		s.defined[t] = n
		return n
	}
	var body string
	switch t.Op {
	case OpExtract:
		body = fmt.Sprintf("((_ extract %d %d) %s)", t.P0, t.P1, s.ref(t.A[0]))
	case OpZExt:
		body = fmt.Sprintf("((_ zero_extend %d) %s)", t.P0, s.ref(t.A[0]))
	case OpSExt:
		body = fmt.Sprintf("((_ sign_extend %d) %s)", t.P0, s.ref(t.A[0]))
	default:
		var sb strings.Builder
		sb.WriteByte('(')
		sb.WriteString(opNames[t.Op])
		for i := 0; i < t.N; i++ {
			sb.WriteByte(' ')
			sb.WriteString(s.ref(t.A[i]))
		}
		sb.WriteByte(')')
		body = sb.String()
	}
	n = "t" + strconv.FormatInt(t.id, 10)
	s.logged(fmt.Sprintf("(define-fun %s () %s %s)", n, sortName(t.W), body))
	s.defined[t] = n
	return n
}

func (s *Session) Assert(t *Term) {
	if t.IsTrue() {
		return
	}
	r := s.ref(t)
	s.logged("(assert " + r + ")")
}

// readUntilMarker collects output lines up to the echo marker.
func (s *Session) readUntilMarker(mk string) ([]string, error) {
	var lines []string
	for {
		line, err := s.out.ReadString('\n')
		if err != nil {
			return lines, fmt.Errorf("solver died: %v", err)
		}
		line = strings.TrimSpace(line)
		if line == mk || line == "\""+mk+"\"" {
			return lines, nil
		}
		if line != "" {
			lines = append(lines, line)
		}
	}
}

func (s *Session) sync() ([]string, error) {
	s.marker++
	mk := fmt.Sprintf("<<m%d>>", s.marker)
	s.raw(fmt.Sprintf("(echo \"%s\")", mk))
	if err := s.flush(); err != nil {
		return nil, err
	}
	return s.readUntilMarker(mk)
}

func parseCheck(lines []string) (SatResult, string) {
	res := Unknown
	errText := ""
	got := false
	for _, l := range lines {
		switch {
		case strings.HasPrefix(l, "(error"):
			errText = l
		case l == "sat":
			res, got = Sat, true
		case l == "unsat":
			res, got = Unsat, true
		case l == "unknown" || l == "timeout":
			res, got = Unknown, true
		}
	}
	if errText != "" {
		return Unknown, errText
	}
	if !got {
		return Unknown, "no answer from solver"
	}
	return res, ""
}

// Check decides sat(PC ∧ extra). With wantModel the values of vars are returned
// on sat. Unknown results fall back to a one-shot run of the whole path log.
func (s *Session) Check(extra *Term, wantModel bool, vars []*Term) (SatResult, map[string]uint64, error) {
	t0 := time.Now()
	defer func() {
		atomic.AddInt64(&gStats.Nanos, int64(time.Since(t0)))
		atomic.AddInt64(&gStats.Queries, 1)
	}()
	var q string
	if extra != nil {
		if extra.IsFalse() {
			atomic.AddInt64(&gStats.UnsatN, 1)
			return Unsat, nil, nil
		}
		q = s.ref(extra)
	}
	// variable references must be declared outside the inner scope
	var vnames []string
	if wantModel {
		for _, v := range vars {
			vnames = append(vnames, s.ref(v))
		}
	}
	s.raw("(push 1)")
	if q != "" {
		s.raw("(assert " + q + ")")
	}
	isZ3 := strings.Contains(s.bin, "z3")
	var lines []string
	var err error
	res, etext := Unknown, ""
	// stage 1: incremental core with a short timeout (fast on arithmetic-light paths)
	if !s.tacticOnly || !isZ3 {
		if isZ3 {
			s.raw(fmt.Sprintf("(set-option :timeout %d)", s.incTimeout))
		}
		s.raw("(check-sat)")
		if lines, err = s.sync(); err != nil {
			return Unknown, nil, err
		}
		res, etext = parseCheck(lines)
		if res == Unknown && etext == "" && isZ3 {
			atomic.AddInt64(&gStats.TacticRetries, 1)
		}
	}
	// stage 2: the bit-vector tactic, stateless, on the same assertion stack
	if res == Unknown && etext == "" && isZ3 {
		s.raw(fmt.Sprintf("(set-option :timeout %d)", s.timeout))
		s.raw("(check-sat-using qfbv)")
		if lines, err = s.sync(); err != nil {
			return Unknown, nil, err
		}
		res, etext = parseCheck(lines)
	}
	s.tee(q, res)
	if d := os.Getenv("GOSYM_SLOW_DIR"); d != "" && time.Since(t0) > 2*time.Second {
		var sb strings.Builder
		fmt.Fprintf(&sb, "; %s in %.1fs\n", res, time.Since(t0).Seconds())
		for _, l := range s.pathLog {
			sb.WriteString(l + "\n")
		}
		sb.WriteString("(assert " + q + ")\n(check-sat)\n")
		os.WriteFile(fmt.Sprintf("%s/slow-%d-%d.smt2", d, os.Getpid(), time.Now().UnixNano()), []byte(sb.String()), 0o644)
	}
	if etext != "" && !strings.Contains(etext, "canceled") {
		atomic.AddInt64(&gStats.Errors, 1)
		s.lastErr = etext
		s.raw("(pop 1)")
		return Unknown, nil, fmt.Errorf("solver error: %s", etext)
	}
	if res == Unknown || etext != "" {
		s.raw("(pop 1)")
		res2, model, err := s.oneShot(q, wantModel, vnames, vars)
		if err == nil {
			s.count(res2)
		}
		return res2, model, err
	}
	var model map[string]uint64
	if res == Sat && wantModel && len(vars) > 0 {
		model, err = s.getModel(vnames, vars)
	}
	s.raw("(pop 1)")
	s.count(res)
	return res, model, err
}

// CheckFresh decides sat(PC and extra) in a fresh solver process fed with the
// path's log (no incremental state), with a model.
func (s *Session) CheckFresh(extra *Term, vars []*Term) (SatResult, map[string]uint64, error) {
	q := ""
	if extra != nil {
		if extra.IsFalse() {
			return Unsat, nil, nil
		}
		q = s.ref(extra)
	}
	var vnames []string
	for _, v := range vars {
		vnames = append(vnames, s.ref(v))
	}
	res, model, err := s.oneShot(q, true, vnames, vars)
	if err == nil {
		s.count(res)
	}
	return res, model, err
}

func (s *Session) count(r SatResult) {
	switch r {
	case Sat:
		atomic.AddInt64(&gStats.SatN, 1)
	case Unsat:
		atomic.AddInt64(&gStats.UnsatN, 1)
	default:
		atomic.AddInt64(&gStats.UnknownN, 1)
	}
}

func (s *Session) getModel(vnames []string, vars []*Term) (map[string]uint64, error) {
	model := map[string]uint64{}
	const chunk = 200
	for i := 0; i < len(vnames); i += chunk {
		j := i + chunk
		if j > len(vnames) {
			j = len(vnames)
		}
		s.raw("(get-value (" + strings.Join(vnames[i:j], " ") + "))")
		lines, err := s.sync()
		if err != nil {
			return nil, err
		}
		txt := strings.Join(lines, " ")
		if strings.Contains(txt, "(error") {
			return nil, fmt.Errorf("get-value: %s", txt)
		}
		vals := parseValues(txt)
		if len(vals) != j-i {
			return nil, fmt.Errorf("get-value: expected %d values, got %d in %q", j-i, len(vals), txt)
		}
		for k, v := range vals {
			model[vars[i+k].Name] = v
		}
	}
	return model, nil
}

// parseValues extracts the value of each (name value) pair, in order.
func parseValues(txt string) []uint64 {
	var out []uint64
	// tokenise
	toks := tokenize(txt)
	// structure: ( ( name value ) ( name value ) ... ) where value may be (_ bvN W)
	depth := 0
	i := 0
	for i < len(toks) {
		t := toks[i]
		switch t {
		case "(":
			depth++
			if depth == 2 {
				// name
				i++ // name token
				i++
				// value
				if toks[i] == "(" {
					// (_ bvN W)
					if i+3 < len(toks) && toks[i+1] == "_" && strings.HasPrefix(toks[i+2], "bv") {
						v, _ := strconv.ParseUint(toks[i+2][2:], 10, 64)
						out = append(out, v)
						i += 4 // ( _ bvN W )  -> position at ")"
					} else {
						out = append(out, 0)
					}
				} else {
					out = append(out, parseLit(toks[i]))
				}
			}
		case ")":
			depth--
		}
		i++
	}
	return out
}

func parseLit(t string) uint64 {
	switch {
	case t == "true":
		return 1
	case t == "false":
		return 0
	case strings.HasPrefix(t, "#x"):
		v, _ := strconv.ParseUint(t[2:], 16, 64)
		return v
	case strings.HasPrefix(t, "#b"):
		v, _ := strconv.ParseUint(t[2:], 2, 64)
		return v
	}
	v, _ := strconv.ParseUint(t, 10, 64)
	return v
}

func tokenize(s string) []string {
	var toks []string
	i := 0
	for i < len(s) {
		c := s[i]
		switch {
		case c == ' ' || c == '\t' || c == '\n' || c == '\r':
			i++
		case c == '(' || c == ')':
			toks = append(toks, string(c))
			i++
		case c == '|':
			j := i + 1
			for j < len(s) && s[j] != '|' {
				j++
			}
			toks = append(toks, s[i:j+1])
			i = j + 1
		default:
			j := i
			for j < len(s) && !strings.ContainsRune(" \t\n\r()", rune(s[j])) {
				j++
			}
			toks = append(toks, s[i:j])
			i = j
		}
	}
	return toks
}

// oneShot re-decides the query non-incrementally: (reset), the whole path log,
// the query, a long timeout. Afterwards the incremental state is rebuilt.
func (s *Session) oneShot(q string, wantModel bool, vnames []string, vars []*Term) (SatResult, map[string]uint64, error) {
	atomic.AddInt64(&gStats.Fallbacks, 1)
	if err := s.respawn(); err != nil {
		return Unknown, nil, err
	}
	s.raw("(set-option :produce-models true)")
	if strings.Contains(s.bin, "z3") {
		s.raw(fmt.Sprintf("(set-option :timeout %d)", s.hardTimeout))
	}
	for _, l := range s.pathLog {
		s.raw(l)
	}
	if q != "" {
		s.raw("(assert " + q + ")")
	}
	s.raw("(check-sat)")
	lines, err := s.sync()
	if err != nil {
		return Unknown, nil, err
	}
	res, etext := parseCheck(lines)
	var model map[string]uint64
	if etext == "" && res == Sat && wantModel && len(vars) > 0 {
		model, err = s.getModel(vnames, vars)
	}
	// rebuild incremental state in a fresh process (a timed-out z3 can stay "canceled")
	if err2 := s.respawn(); err2 != nil {
		return Unknown, nil, err2
	}
	s.preamble()
	s.raw("(push 1)")
	for _, l := range s.pathLog {
		s.raw(l)
	}
	if etext != "" {
		atomic.AddInt64(&gStats.Errors, 1)
		return Unknown, nil, fmt.Errorf("solver error: %s", etext)
	}
	return res, model, err
}

// tee writes the current path log plus query as a standalone SMT-LIB2 file for
// cross-solver comparison (sampled).
func (s *Session) tee(q string, res SatResult) {
	if s.teeDir == "" || s.teeN == nil {
		return
	}
	n := s.teeN.Add(1)
	if n > s.teeMax {
		return
	}
	var sb strings.Builder
	sb.WriteString("; expect " + res.String() + "\n")
	for _, l := range s.pathLog {
		sb.WriteString(l)
		sb.WriteByte('\n')
	}
	if q != "" {
		sb.WriteString("(assert " + q + ")\n")
	}
	sb.WriteString("(check-sat)\n")
	os.WriteFile(fmt.Sprintf("%s/q%06d.smt2", s.teeDir, n), []byte(sb.String()), 0o644)
}
