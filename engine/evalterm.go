package main

// Evaluation of a term under a model, by rebuilding it over constants (every
// constructor folds constants, so the result is a constant).

func evalTerm(t *Term, model map[string]uint64) uint64 {
	return newTermEval(model).eval(t)
}

// termEval evaluates several terms under one model, sharing sub-term results.
type termEval struct {
	st    *TermStore
	memo  map[*Term]*Term
	model map[string]uint64
}

func newTermEval(model map[string]uint64) *termEval {
	return &termEval{st: NewTermStore(), memo: map[*Term]*Term{}, model: model}
}

func (te *termEval) eval(t *Term) uint64 {
	st, memo, model := te.st, te.memo, te.model
	var rec func(t *Term) *Term
	rec = func(t *Term) *Term {
		if t.Op == OpConst {
			return t
		}
		if r, ok := memo[t]; ok {
			return r
		}
		var r *Term
		switch t.Op {
		case OpVar:
			r = K(t.W, model[t.Name])
		case OpBNot:
			r = st.Not(rec(t.A[0]))
		case OpBAnd:
			r = st.And(rec(t.A[0]), rec(t.A[1]))
		case OpBOr:
			r = st.Or(rec(t.A[0]), rec(t.A[1]))
		case OpIte:
			r = st.Ite(rec(t.A[0]), rec(t.A[1]), rec(t.A[2]))
		case OpEq:
			r = st.Eq(rec(t.A[0]), rec(t.A[1]))
		case OpULt, OpULe, OpSLt, OpSLe:
			r = st.Cmp(t.Op, rec(t.A[0]), rec(t.A[1]))
		case OpNot, OpNeg:
			r = st.Un(t.Op, rec(t.A[0]))
		case OpConcat:
			r = st.Concat(rec(t.A[0]), rec(t.A[1]))
		case OpExtract:
			r = st.Extract(rec(t.A[0]), t.P0, t.P1)
		case OpZExt:
			r = st.ZExt(rec(t.A[0]), t.W)
		case OpSExt:
			r = st.SExt(rec(t.A[0]), t.W)
		default:
			r = st.Bin(t.Op, rec(t.A[0]), rec(t.A[1]))
		}
		if !r.IsConst() {
			panic("evalTerm: not constant: " + r.String())
		}
		memo[t] = r
		return r
	}
	return rec(t).C
}
