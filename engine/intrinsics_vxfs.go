package main

// vx.FS*: harness access to the file-system model.

import (
	"path/filepath"
	"strings"
)

func pathMatch(pat, name string) (bool, error) { return filepath.Match(pat, name) }

func init() {
	extraIntrinsics = append(extraIntrinsics, registerVxFS)
}

func registerVxFS(e *Engine) {
	// byte-range locks on the restored database: single process, always granted
	e.reg("github.com/benbjohnson/litestream/internal.setFcntlLock", func(ex *Exec, fr *frame, args []Value) Value {
		return iface{}
	})
	// randomness: fresh symbolic bytes
	randRead := func(ex *Exec, fr *frame, args []Value) Value {
		p := args[0].([]Value)
		for i := range p {
			p[i] = ex.NewInput("rand", 8)
		}
		return tuple{K(64, uint64(len(p))), iface{}}
	}
	e.reg("crypto/rand.Read", randRead)
	e.reg("math/rand.Read", randRead)
	e.reg(vxPath+".TempDir", func(ex *Exec, fr *frame, args []Value) Value {
		st := ex.fs()
		ex.ensureDirs(st, "/vx")
		return "/vx"
	})
	// setup operations: not counted as operations of the code under test, and durable
	e.reg(vxPath+".FSMkdirAll", func(ex *Exec, fr *frame, args []Value) Value {
		ex.ensureDirs(ex.fs(), ex.fsPath(args[0]))
		return nil
	})
	e.reg(vxPath+".FSWriteFile", func(ex *Exec, fr *frame, args []Value) Value {
		st := ex.fs()
		p := ex.fsPath(args[0])
		ex.ensureDirs(st, parentDir(p))
		st.nextGen++
		data := append([]Value{}, args[1].([]Value)...)
		st.nodes[p] = &fsNode{name: p, data: data, mode: 0o644, complete: true, gen: st.nextGen}
		return nil
	})
	e.reg(vxPath+".FSSparseFile", func(ex *Exec, fr *frame, args []Value) Value {
		st := ex.fs()
		p := ex.fsPath(args[0])
		ex.ensureDirs(st, parentDir(p))
		st.nextGen++
		st.nodes[p] = &fsNode{name: p, vsize: int(ex.concreteInt(args[1], "FSSparseFile size", true)), mode: 0o644, complete: true, gen: st.nextGen}
		return nil
	})
	e.reg(vxPath+".FSSparseFileSym", func(ex *Exec, fr *frame, args []Value) Value {
		st := ex.fs()
		p := ex.fsPath(args[0])
		ex.ensureDirs(st, parentDir(p))
		st.nextGen++
		t, _ := args[1].(*Term)
		n := &fsNode{name: p, mode: 0o644, complete: true, gen: st.nextGen}
		if t != nil && !t.IsConst() {
			n.vsizeT = t
		} else if t != nil {
			n.vsize = int(t.C)
		}
		st.nodes[p] = n
		return nil
	})
	e.reg(vxPath+".FSSparsePatch", func(ex *Exec, fr *frame, args []Value) Value {
		st := ex.fs()
		n := st.nodes[ex.fsPath(args[0])]
		if n == nil {
			ex.unsupported("FSSparsePatch: no such file")
		}
		if n.patches == nil {
			n.patches = map[int][]Value{}
		}
		at := int(ex.concreteInt(args[1], "FSSparsePatch offset", true))
		n.patches[at] = append([]Value{}, args[2].([]Value)...)
		return nil
	})
	e.reg(vxPath+".FSSetMtime", func(ex *Exec, fr *frame, args []Value) Value {
		st := ex.fs()
		if n := st.nodes[ex.fsPath(args[0])]; n != nil {
			n.mtime = copyVal(args[1])
		}
		return nil
	})
	e.reg(vxPath+".FSExists", func(ex *Exec, fr *frame, args []Value) Value {
		return KBool(ex.fs().nodes[ex.fsPath(args[0])] != nil)
	})
	e.reg(vxPath+".FSReadFile", func(ex *Exec, fr *frame, args []Value) Value {
		n := ex.fs().nodes[ex.fsPath(args[0])]
		if n == nil {
			return []Value(nil)
		}
		return append([]Value{}, n.data...)
	})
	e.reg(vxPath+".FSSize", func(ex *Exec, fr *frame, args []Value) Value {
		n := ex.fs().nodes[ex.fsPath(args[0])]
		if n == nil {
			return K(64, ^uint64(0))
		}
		return K(64, uint64(len(n.data)))
	})
	e.reg(vxPath+".FSList", func(ex *Exec, fr *frame, args []Value) Value {
		st := ex.fs()
		out := []Value{}
		for _, c := range st.children(ex.fsPath(args[0])) {
			out = append(out, baseName(c))
		}
		return out
	})
	e.reg(vxPath+".FSFaults", func(ex *Exec, fr *frame, args []Value) Value {
		ex.fs().faults = argTerm(args[0]).IsTrue()
		return nil
	})
	e.reg(vxPath+".FSOps", func(ex *Exec, fr *frame, args []Value) Value {
		return K(64, uint64(ex.fs().ops))
	})
	// FSRun(f): run f; a crash scheduled by FSCrashAt stops it. Returns true if it crashed.
	e.reg(vxPath+".FSRun", func(ex *Exec, fr *frame, args []Value) Value {
		crashed := false
		depth := len(ex.callStack)
		func() {
			defer func() {
				if r := recover(); r != nil {
					if _, ok := r.(fsCrash); ok {
						crashed = true
						ex.callStack = ex.callStack[:depth]
						// the process is gone: every handle is closed without flushing, locks vanish
						for _, h := range ex.handles() {
							if !h.closed {
								h.closed = true
								if h.flag&(oWRONLY|oRDWR) != 0 {
									h.node.openW--
								}
							}
						}
						delete(ex.ghost, "locks")
						return
					}
					panic(r)
				}
			}()
			ex.call(fr, 0, args[0], nil)
		}()
		ex.fs().crashAt = 0
		return KBool(crashed)
	})
	e.reg(vxPath+".FSCrashAt", func(ex *Exec, fr *frame, args []Value) Value {
		st := ex.fs()
		k := int(ex.concreteInt(args[0], "FSCrashAt", true))
		if k > 0 {
			st.crashAt = st.ops + k
		} else {
			st.crashAt = 0
		}
		return nil
	})
	e.reg(vxPath+".FSPublishGuard", func(ex *Exec, fr *frame, args []Value) Value {
		st := ex.fs()
		if st.guards == nil {
			st.guards = map[string]string{}
		}
		st.guards[ex.fsPath(args[0])] = ex.fsPath(args[1])
		return nil
	})
	// ghost state queries (ordering rules); natively these come from the syscall trace
	e.reg(vxPath+".FSEvents", func(ex *Exec, fr *frame, args []Value) Value {
		ex.ghostQueried = true // an answer the native twin cannot give: confirm by concrete re-execution
		pre := argStr(ex, args[0])
		n := 0
		for _, ev := range ex.fs().events {
			if strings.HasPrefix(ev, pre) {
				n++
			}
		}
		return K(64, uint64(n))
	})
	e.reg(vxPath+".FSFileDirty", func(ex *Exec, fr *frame, args []Value) Value {
		ex.ghostQueried = true // an answer the native twin cannot give: confirm by concrete re-execution
		n := ex.fs().nodes[ex.fsPath(args[0])]
		return KBool(n != nil && n.dirty)
	})
	e.reg(vxPath+".FSDirDirty", func(ex *Exec, fr *frame, args []Value) Value {
		ex.ghostQueried = true // an answer the native twin cannot give: confirm by concrete re-execution
		n := ex.fs().nodes[ex.fsPath(args[0])]
		return KBool(n != nil && n.entriesDirty)
	})
	e.reg(vxPath+".FSComplete", func(ex *Exec, fr *frame, args []Value) Value {
		ex.ghostQueried = true // an answer the native twin cannot give: confirm by concrete re-execution
		n := ex.fs().nodes[ex.fsPath(args[0])]
		return KBool(n != nil && n.complete && n.openW == 0)
	})
	e.reg(vxPath+".FSPublished", func(ex *Exec, fr *frame, args []Value) Value {
		ex.ghostQueried = true // an answer the native twin cannot give: confirm by concrete re-execution
		out := []Value{}
		for _, p := range ex.fs().published {
			out = append(out, p)
		}
		return out
	})
	e.reg(vxPath+".FSUnlinked", func(ex *Exec, fr *frame, args []Value) Value {
		ex.ghostQueried = true // an answer the native twin cannot give: confirm by concrete re-execution
		out := []Value{}
		for _, p := range ex.fs().unlinked {
			out = append(out, p)
		}
		return out
	})
	e.reg(vxPath+".FSTrace", func(ex *Exec, fr *frame, args []Value) Value {
		ex.ghostQueried = true // an answer the native twin cannot give: confirm by concrete re-execution
		out := []Value{}
		for _, p := range ex.fs().trace {
			out = append(out, p)
		}
		return out
	})
}
