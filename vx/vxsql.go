package vx

// symsql, native side: a database/sql driver whose every statement is handed to
// a harness-supplied handler. The handler is ordinary harness code (it draws
// outcomes with vx.Fault/vx.Choose and plays SQLite's part on the files), so the
// same handler runs under the engine, where the database/sql calls made by the
// code under test are intrinsics that call it directly.

import (
	"database/sql"
	"database/sql/driver"
	"errors"
	"fmt"
	"io"
	"sync"
)

// SQLEvent is one call the code under test makes on the database.
type SQLEvent struct {
	Kind string // "begin", "exec", "query", "commit", "rollback", "close"
	SQL  string
	Tx   int // transaction number (0 = outside a transaction)
	Conn int // pooled connection the call runs on (numbered from 1 in order of opening; "open" carries the DSN in SQL)
}

// SQLResult is the environment's answer.
type SQLResult struct {
	Err   string  // non-empty: the call fails with this message
	Ints  []int64 // integer columns of the single result row
	Str   string  // string column (when the statement returns text)
	IsStr bool
}

type SQLHandler func(SQLEvent) SQLResult

type vxDriver struct {
	mu       sync.Mutex
	h        SQLHandler
	nextTx   int
	nextConn int
}

var (
	vxDrvOnce sync.Once
	vxDrv     = &vxDriver{}
)

// SQLOpen returns a *sql.DB whose statements go to h.
func SQLOpen(h SQLHandler) *sql.DB { return SQLOpenDSN(h, "") }

// SQLOpenDSN is SQLOpen with the data source name the code under test built: every
// pooled connection is opened with it (an "open" event carries it to the handler).
func SQLOpenDSN(h SQLHandler, dsn string) *sql.DB {
	vxDrvOnce.Do(func() { sql.Register("vxsql", vxDrv) })
	vxDrv.mu.Lock()
	vxDrv.h = h
	vxDrv.nextTx = 0
	vxDrv.nextConn = 0
	vxDrv.mu.Unlock()
	db, err := sql.Open("vxsql", dsn)
	if err != nil {
		panic(err)
	}
	return db
}

func (d *vxDriver) Open(name string) (driver.Conn, error) {
	d.mu.Lock()
	d.nextConn++
	id := d.nextConn
	d.mu.Unlock()
	d.call(SQLEvent{Kind: "open", SQL: name, Conn: id})
	return &vxConn{d: d, id: id}, nil
}

func (d *vxDriver) call(ev SQLEvent) SQLResult {
	d.mu.Lock()
	h := d.h
	d.mu.Unlock()
	return h(ev)
}

type vxConn struct {
	d  *vxDriver
	id int
	tx int
}

func (c *vxConn) Prepare(q string) (driver.Stmt, error) { return &vxStmt{c: c, q: q}, nil }
func (c *vxConn) Close() error {
	// database/sql closes its connections when the DB is closed
	c.d.call(SQLEvent{Kind: "close", Conn: c.id})
	return nil
}
func (c *vxConn) Begin() (driver.Tx, error) {
	c.d.mu.Lock()
	c.d.nextTx++
	id := c.d.nextTx
	c.d.mu.Unlock()
	r := c.d.call(SQLEvent{Kind: "begin", Tx: id, Conn: c.id})
	if r.Err != "" {
		return nil, errors.New(r.Err)
	}
	c.tx = id
	return &vxTx{c: c, id: id}, nil
}

type vxTx struct {
	c  *vxConn
	id int
}

func (t *vxTx) Commit() error {
	t.c.tx = 0
	if r := t.c.d.call(SQLEvent{Kind: "commit", Tx: t.id, Conn: t.c.id}); r.Err != "" {
		return errors.New(r.Err)
	}
	return nil
}

func (t *vxTx) Rollback() error {
	t.c.tx = 0
	if r := t.c.d.call(SQLEvent{Kind: "rollback", Tx: t.id, Conn: t.c.id}); r.Err != "" {
		return errors.New(r.Err)
	}
	return nil
}

type vxStmt struct {
	c *vxConn
	q string
}

func (s *vxStmt) Close() error  { return nil }
func (s *vxStmt) NumInput() int { return -1 }
func (s *vxStmt) Exec(args []driver.Value) (driver.Result, error) {
	r := s.c.d.call(SQLEvent{Kind: "exec", SQL: s.q, Tx: s.c.tx, Conn: s.c.id})
	if r.Err != "" {
		return nil, errors.New(r.Err)
	}
	return driver.RowsAffected(0), nil
}
func (s *vxStmt) Query(args []driver.Value) (driver.Rows, error) {
	r := s.c.d.call(SQLEvent{Kind: "query", SQL: s.q, Tx: s.c.tx, Conn: s.c.id})
	if r.Err != "" {
		return nil, errors.New(r.Err)
	}
	return &vxRows{r: r}, nil
}

type vxRows struct {
	r    SQLResult
	done bool
}

func (r *vxRows) Columns() []string {
	n := len(r.r.Ints)
	if r.r.IsStr {
		n = 1
	}
	cols := make([]string, n)
	for i := range cols {
		cols[i] = fmt.Sprintf("c%d", i)
	}
	return cols
}
func (r *vxRows) Close() error { return nil }
func (r *vxRows) Next(dest []driver.Value) error {
	if r.done {
		return io.EOF
	}
	r.done = true
	if r.r.IsStr {
		dest[0] = r.r.Str
		return nil
	}
	for i := range dest {
		dest[i] = r.r.Ints[i]
	}
	return nil
}
