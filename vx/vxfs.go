package vx

// Native twins of the file-system harness API. Setup and observation work on
// the real file system under a per-run temporary directory. Fault injection,
// crash points and the fsync-ordering ghost state have no effect here; where a
// harness depends on them the check confirms a counterexample through the
// syscall-trace twin instead (see DESIGN.md, symfs).

import (
	"os"
	"path/filepath"
	"sort"
	"time"
)

var tempDir string

// TempDir returns the directory the harness works in ("/vx" in the engine).
func TempDir() string {
	if tempDir == "" {
		if d := os.Getenv("VX_TEMPDIR"); d != "" {
			tempDir = d
		} else {
			d, err := os.MkdirTemp("", "vx-")
			if err != nil {
				panic(err)
			}
			tempDir = d
		}
	}
	return tempDir
}

// ResetTempDir removes the run's directory (called between replays).
func ResetTempDir() {
	if tempDir != "" && os.Getenv("VX_TEMPDIR") == "" {
		os.RemoveAll(tempDir)
	}
	tempDir = ""
}

func FSMkdirAll(path string) {
	if err := os.MkdirAll(path, 0o755); err != nil {
		panic(err)
	}
}

func FSWriteFile(path string, data []byte) {
	if err := os.MkdirAll(filepath.Dir(path), 0o755); err != nil {
		panic(err)
	}
	if err := os.WriteFile(path, data, 0o644); err != nil {
		panic(err)
	}
}

// FSSparseFile creates a file of the given size that reads as zeros.
func FSSparseFile(path string, size int64) {
	if err := os.MkdirAll(filepath.Dir(path), 0o755); err != nil {
		panic(err)
	}
	f, err := os.Create(path)
	if err != nil {
		panic(err)
	}
	defer f.Close()
	if err := f.Truncate(size); err != nil {
		panic(err)
	}
}

// FSSparseFileSym is FSSparseFile for a length that is an input (the engine keeps
// it symbolic: only the size of such a file can be asked for).
func FSSparseFileSym(path string, size int64) { FSSparseFile(path, size) }

// FSSparsePatch writes data at an offset of a sparse file (the rest stays a hole).
func FSSparsePatch(path string, off int64, data []byte) {
	f, err := os.OpenFile(path, os.O_WRONLY, 0)
	if err != nil {
		panic(err)
	}
	defer f.Close()
	if _, err := f.WriteAt(data, off); err != nil {
		panic(err)
	}
}

func FSSetMtime(path string, t time.Time) {
	if err := os.Chtimes(path, t, t); err != nil {
		panic(err)
	}
}

func FSExists(path string) bool {
	_, err := os.Lstat(path)
	return err == nil
}

func FSReadFile(path string) []byte {
	b, err := os.ReadFile(path)
	if err != nil {
		return nil
	}
	return b
}

// FSSize returns the file size, or ^0 if the file does not exist.
func FSSize(path string) uint64 {
	fi, err := os.Stat(path)
	if err != nil {
		return ^uint64(0)
	}
	return uint64(fi.Size())
}

func FSList(dir string) []string {
	ents, err := os.ReadDir(dir)
	if err != nil {
		return []string{}
	}
	out := []string{}
	for _, e := range ents {
		out = append(out, e.Name())
	}
	sort.Strings(out)
	return out
}

// FSFaults switches fault injection on every file-system call (engine only).
func FSFaults(on bool) {}

// FSOps is the number of mutating operations so far (engine only).
func FSOps() uint64 { return 0 }

// FSCrashAt schedules a process kill immediately before the k-th mutating
// operation from now (engine only).
func FSCrashAt(k int) {}

// FSRun runs f; returns true if a scheduled crash stopped it (engine only).
func FSRun(f func()) bool { f(); return false }

// FSPublishGuard declares an ordering rule: whenever `final` comes into existence
// by rename, `mustBeClean` must hold no unflushed writes (otherwise the ghost event
// "publish-beside-unsynced-file <final>" is recorded). No-op natively.
func FSPublishGuard(final, mustBeClean string) {}

// Ghost-state queries of the ordering rules (engine; natively from the syscall trace twin).
func FSEvents(prefix string) uint64 { return 0 }
func FSFileDirty(path string) bool  { return false }
func FSDirDirty(path string) bool   { return false }
func FSComplete(path string) bool   { return FSExists(path) }
func FSPublished() []string         { return nil }
func FSUnlinked() []string          { return nil }
func FSTrace() []string             { return nil }
