// Package vx is the harness support library. Harnesses obtain nondeterministic
// inputs, state assumptions and assert properties through it. The bodies here
// are the NATIVE twins used for replaying a solver model against the real
// build: every source reads its value by name and occurrence number from the
// replay file named by $VX_REPLAY. The symbolic engine (gosym) ignores these
// bodies and substitutes its own semantics for every function in this package.
package vx

import (
	"encoding/json"
	"fmt"
	"os"
	"strings"
	"time"
)

// Replay is the on-disk form of a counterexample / sample model.
type Replay struct {
	Harness  string            `json:"harness"`
	Inputs   map[string]uint64 `json:"inputs"`
	Failed   string            `json:"failed,omitempty"`
	Kind     string            `json:"kind,omitempty"`
	Observed []string          `json:"observed,omitempty"`
}

// Outcome is what a native run reports back.
type Outcome struct {
	Harness     string   `json:"harness"`
	FailedLabels []string `json:"failed_labels"`
	AssumeFailed bool     `json:"assume_failed"`
	Panic       string   `json:"panic,omitempty"`
	Observed    []string `json:"observed"`
	Asserts     int      `json:"asserts"`
}

type state struct {
	rp  Replay
	occ map[string]int
	out Outcome
}

var cur *state

type assumeFailed struct{}

// Begin loads a replay; End returns the outcome. Used by the generated test.
func Begin(rp Replay) {
	cur = &state{rp: rp, occ: map[string]int{}}
	cur.out.Harness = rp.Harness
}

func End() Outcome { o := cur.out; cur = nil; return o }

// RunFile executes harness fn under the replay file at path and returns the outcome.
func RunFile(path string, fns map[string]func()) (out Outcome, err error) {
	data, err := os.ReadFile(path)
	if err != nil {
		return out, err
	}
	var rp Replay
	if err := json.Unmarshal(data, &rp); err != nil {
		return out, err
	}
	name := rp.Harness
	if i := strings.LastIndex(name, "."); i >= 0 {
		name = name[i+1:]
	}
	fn := fns[name]
	if fn == nil {
		return out, fmt.Errorf("vx: no harness %q", rp.Harness)
	}
	Begin(rp)
	ResetTempDir()
	defer ResetTempDir()
	func() {
		defer func() {
			if r := recover(); r != nil {
				if _, ok := r.(assumeFailed); ok {
					cur.out.AssumeFailed = true
					return
				}
				cur.out.Panic = fmt.Sprint(r)
			}
		}()
		fn()
	}()
	return End(), nil
}

func get(name string) uint64 {
	if cur == nil {
		panic("vx: no replay loaded")
	}
	k := cur.occ[name]
	cur.occ[name] = k + 1
	return cur.rp.Inputs[fmt.Sprintf("%s#%d", name, k)]
}

func U8(name string) uint8   { return uint8(get(name)) }
func U16(name string) uint16 { return uint16(get(name)) }
func U32(name string) uint32 { return uint32(get(name)) }
func U64(name string) uint64 { return get(name) }
func I64(name string) int64  { return int64(get(name)) }
func I32(name string) int32  { return int32(get(name)) }
func Int(name string) int    { return int(int64(get(name))) }
func Bool(name string) bool  { return get(name)&1 == 1 }

// Bytes returns n bytes, each an independent input named name[i].
func Bytes(name string, n int) []byte {
	b := make([]byte, n)
	for i := range b {
		b[i] = uint8(get(fmt.Sprintf("%s[%d]", name, i)))
	}
	return b
}

// Choose returns a value in [lo,hi]; the engine explores every value.
func Choose(name string, lo, hi int) int {
	v := int(get(name))
	if v < lo || v > hi {
		panic(assumeFailed{})
	}
	return v
}

// Fault is a two-way Choose: true means "inject the fault".
func Fault(name string) bool { return get(name) != 0 }

func Assume(c bool) {
	if !c {
		panic(assumeFailed{})
	}
}

// Assert states a property. Natively a failure is recorded and execution goes on.
func Assert(label string, c bool) {
	cur.out.Asserts++
	if !c {
		cur.out.FailedLabels = append(cur.out.FailedLabels, label)
	}
}

// Known declares a class predicate for a recorded finding (no-op natively).
func Known(id string, c bool) {}

// Reach marks a point that must be reachable (vacuity guard; no-op natively).
func Reach(label string) {}

// Observe logs a value; engine and native logs of validated paths must agree.
func Observe(label string, v uint64) {
	cur.out.Observed = append(cur.out.Observed, fmt.Sprintf("%s=%d", label, v))
}

func ObserveBool(label string, b bool) {
	v := uint64(0)
	if b {
		v = 1
	}
	Observe(label, v)
}

// Term-building connectives: no forking in the engine.
func And(a, b bool) bool     { return a && b }
func Or(a, b bool) bool      { return a || b }
func Not(a bool) bool        { return !a }
func Implies(a, b bool) bool { return !a || b }
func Iff(a, b bool) bool     { return a == b }
func IteU64(c bool, a, b uint64) uint64 {
	if c {
		return a
	}
	return b
}
func IteU32(c bool, a, b uint32) uint32 {
	if c {
		return a
	}
	return b
}
func IteI64(c bool, a, b int64) int64 {
	if c {
		return a
	}
	return b
}
func IteInt(c bool, a, b int) int {
	if c {
		return a
	}
	return b
}
func IteBool(c bool, a, b bool) bool {
	if c {
		return a
	}
	return b
}

// ClockStep lets time pass: the engine advances its clock by a symbolic number
// of whole seconds in [0,max]; the native twin really sleeps that long.
func ClockStep(name string, max int) uint64 {
	d := get(name)
	if d > uint64(max) {
		panic(assumeFailed{})
	}
	time.Sleep(time.Duration(d) * time.Second)
	return d
}

// TimeAgo returns base - ageSec seconds - 500 ms. The half second keeps every
// instant a harness builds away from whole-second thresholds, so the few
// microseconds a native run takes cannot flip a comparison.
func TimeAgo(base time.Time, ageSec uint64) time.Time {
	return base.Add(-(time.Duration(ageSec)*time.Second + 500*time.Millisecond))
}

// Concrete forces a symbolic value to a concrete one by case split (engine); identity natively.
func Concrete(x uint64) uint64 { return x }

// Param is a concrete bound chosen by the check driver (default def).
func Param(name string, def int) int {
	if cur != nil {
		if v, ok := cur.rp.Inputs["param:"+name]; ok {
			return int(int64(v))
		}
	}
	return def
}

// Range returns an input constrained to [lo,hi].
func Range(name string, lo, hi uint64) uint64 {
	v := get(name)
	if v < lo || v > hi {
		panic(assumeFailed{})
	}
	return v
}

// OnTick arranges for f to run once after n ticks of any time.Ticker (engine:
// tickers fire at once, the n-th receive runs f). Natively f runs after a delay
// that leaves a millisecond ticker loop ample time for n rounds.
func OnTick(n int, f func()) {
	time.AfterFunc(time.Duration(n)*20*time.Millisecond, f)
}

// TimeBack returns base - ageSec seconds exactly.
func TimeBack(base time.Time, ageSec uint64) time.Time {
	return base.Add(-time.Duration(ageSec) * time.Second)
}

// Settle lets background watchers of the real runtime act (database/sql rolls a
// transaction back in a goroutine when its context ends); no-op in the engine.
func Settle() { time.Sleep(50 * time.Millisecond) }
