package s3

// C20 harness: one lease operation by client j from an arbitrary store state,
// with arbitrary interference by other clients between j's requests
// (rely/guarantee step, DESIGN.md D.5). The store is S3's conditional-write
// semantics over one object.

import (
	"bytes"
	"context"
	"encoding/json"
	"errors"
	"io"
	"time"

	"github.com/aws/aws-sdk-go-v2/service/s3"
	"github.com/aws/aws-sdk-go-v2/service/s3/types"
	"github.com/aws/smithy-go"

	"github.com/benbjohnson/litestream"
	"github.com/benbjohnson/litestream/internal/vx"
)

// vxStore is the lease object: absent, or (blob, etag) with etag an injective
// name of the blob (two different blobs never share an etag).
type vxStore struct {
	present bool
	blob    []byte
	etag    string

	nextTag       int
	unconditional int
	requests      int
	before        func() // interference hook, runs before each request of the client under test
	// noCondDelete: an S3-compatible store that answers a DeleteObject carrying
	// If-Match with 501 NotImplemented (and does nothing)
	noCondDelete bool
	rejected     int
}

func (s *vxStore) fresh() string {
	s.nextTag++
	return "v" + string(rune('0'+s.nextTag))
}

func (s *vxStore) GetObject(ctx context.Context, in *s3.GetObjectInput, _ ...func(*s3.Options)) (*s3.GetObjectOutput, error) {
	s.requests++
	if s.before != nil {
		s.before()
	}
	if !s.present {
		return nil, &types.NoSuchKey{}
	}
	etag := s.etag
	return &s3.GetObjectOutput{Body: io.NopCloser(bytes.NewReader(s.blob)), ETag: &etag}, nil
}

func (s *vxStore) PutObject(ctx context.Context, in *s3.PutObjectInput, _ ...func(*s3.Options)) (*s3.PutObjectOutput, error) {
	s.requests++
	if s.before != nil {
		s.before()
	}
	body, err := io.ReadAll(in.Body)
	if err != nil {
		return nil, err
	}
	switch {
	case in.IfNoneMatch != nil && *in.IfNoneMatch == "*":
		if s.present {
			return nil, &smithy.GenericAPIError{Code: "PreconditionFailed", Message: "object exists"}
		}
	case in.IfMatch != nil:
		if !s.present || s.etag != *in.IfMatch {
			return nil, &smithy.GenericAPIError{Code: "PreconditionFailed", Message: "etag mismatch"}
		}
	default:
		s.unconditional++
	}
	s.present, s.blob, s.etag = true, body, s.fresh()
	etag := s.etag
	return &s3.PutObjectOutput{ETag: &etag}, nil
}

func (s *vxStore) DeleteObject(ctx context.Context, in *s3.DeleteObjectInput, _ ...func(*s3.Options)) (*s3.DeleteObjectOutput, error) {
	s.requests++
	if s.before != nil {
		s.before()
	}
	if in.IfMatch == nil {
		s.unconditional++
	} else {
		if s.noCondDelete {
			s.rejected++
			return nil, &smithy.GenericAPIError{Code: "NotImplemented", Message: "A header you provided implies functionality that is not implemented"}
		}
		if !s.present {
			return nil, &smithy.GenericAPIError{Code: "NoSuchKey", Message: "not found"}
		}
		if s.etag != *in.IfMatch {
			return nil, &smithy.GenericAPIError{Code: "PreconditionFailed", Message: "etag mismatch"}
		}
	}
	s.present, s.blob, s.etag = false, nil, ""
	return &s3.DeleteObjectOutput{}, nil
}

func vxEnc(l *litestream.Lease) []byte {
	b, err := json.Marshal(l)
	if err != nil {
		panic(err)
	}
	return b
}

// vxInstant returns base + 5s - age - 0.5s for age in 0..9: instants on both
// sides of "now", never equal to a whole-second clock reading.
func vxInstant(base time.Time, name string) (time.Time, uint64) {
	// TTL is a per-instance setting: another instance's lease may run far longer
	// than this client's own TTL
	if vx.Fault(name + "Far") {
		return vx.TimeAgo(base.Add(time.Hour), 0), 0
	}
	age := vx.Range(name, 0, 9)
	return vx.TimeAgo(base.Add(5*time.Second), age), age
}

type vxWorld struct {
	st     *vxStore
	base   time.Time
	w      *litestream.Lease // the witness client's lease
	j      *litestream.Lease // the lease client j believes it holds (renew/release); nil for acquire
	nOther int
}

// holdsIfUnexpired is invariant I for one client: an unexpired lease is the stored record.
func (wd *vxWorld) holdsIfUnexpired(l *litestream.Lease) bool {
	if l == nil {
		return true
	}
	now := time.Now()
	stored := wd.st.present && wd.st.etag == l.ETag
	return vx.Or(vx.Not(now.Before(l.ExpiresAt)), stored)
}

// havoc replaces the store state by an arbitrary one that keeps invariant I for
// the witness and for j's held lease (the rely condition: the other clients
// follow the protocol).
func (wd *vxWorld) havoc() {
	kinds := 2
	if wd.j != nil {
		kinds = 3
	}
	switch vx.Choose("store", 0, kinds) {
	case 0:
		wd.st.present, wd.st.blob, wd.st.etag = false, nil, ""
	case 1:
		wd.st.present, wd.st.blob, wd.st.etag = true, vxEnc(wd.w), wd.w.ETag
	case 2:
		wd.nOther++
		exp, _ := vxInstant(wd.base, "otherexp")
		o := &litestream.Lease{Generation: int64(vx.Range("othergen", 1, 5)), ExpiresAt: exp, Owner: "other"}
		wd.st.present, wd.st.blob, wd.st.etag = true, vxEnc(o), "o"+string(rune('0'+wd.nOther))
	case 3:
		wd.st.present, wd.st.blob, wd.st.etag = true, vxEnc(wd.j), wd.j.ETag
	}
	vx.Assume(wd.holdsIfUnexpired(wd.w))
	vx.Assume(wd.holdsIfUnexpired(wd.j))
}

func vxNewWorld(withHeld bool) (*vxWorld, *Leaser) {
	wd := &vxWorld{st: &vxStore{}}
	wd.base = time.Now()
	wexp, _ := vxInstant(wd.base, "wexp")
	wd.w = &litestream.Lease{Generation: int64(vx.Range("wgen", 1, 5)), ExpiresAt: wexp, Owner: "w", ETag: "w"}
	if withHeld {
		jexp, _ := vxInstant(wd.base, "jexp")
		wd.j = &litestream.Lease{Generation: int64(vx.Range("jgen", 1, 5)), ExpiresAt: jexp, Owner: "j", ETag: "j0"}
	}
	wd.havoc()
	// between j's requests: time passes and the others act
	wd.st.before = func() {
		vx.ClockStep("dt", 2)
		if vx.Fault("interfere") {
			wd.havoc()
		}
	}
	l := NewLeaser()
	l.SetClient(wd.st)
	l.Bucket, l.Owner, l.TTL = "b", "j", 3*time.Second
	return wd, l
}

// after: the guarantees every operation owes the other clients.
func (wd *vxWorld) after() {
	vx.Assert("witness-lease-preserved-while-unexpired", wd.holdsIfUnexpired(wd.w))
	vx.Assert("only-conditional-writes", wd.st.unconditional == 0)
}

// holder states that lease l is the stored record right now.
func (wd *vxWorld) isStored(l *litestream.Lease) bool {
	if !wd.st.present || wd.st.etag != l.ETag {
		return false
	}
	return bytes.Equal(wd.st.blob, vxEnc(l))
}

// VxC20Acquire: AcquireLease by j.
func VxC20Acquire() {
	wd, l := vxNewWorld(false)
	// what j will read first is decided by the havoc inside the first request; remember
	// the generation of whatever is stored when the PUT is issued via the result instead
	lease, err := l.AcquireLease(context.Background())
	wd.after()
	if err != nil {
		var exists *litestream.LeaseExistsError
		vx.ObserveBool("exists-error", errors.As(err, &exists))
		return
	}
	now := time.Now()
	vx.Assert("acquired-lease-is-the-stored-record", wd.isStored(lease))
	vx.Assert("acquired-lease-owner-and-expiry", vx.And(lease.Owner == "j", vx.And(vx.Not(lease.ExpiresAt.After(now.Add(3*time.Second))), lease.ExpiresAt.After(now))))
	vx.Assert("no-two-unexpired-holders", vx.Not(now.Before(wd.w.ExpiresAt)))
	vx.Assert("generation-positive", lease.Generation >= 1)
}

// VxC20Takeover: acquire when an expired record of another owner is stored and
// nobody interferes: the generation is the read record's plus one.
func VxC20Takeover() {
	st := &vxStore{}
	base := time.Now()
	age := vx.Range("age", 0, 9)
	old := &litestream.Lease{Generation: int64(vx.Range("gen", 1, 1000)), ExpiresAt: vx.TimeAgo(base.Add(5*time.Second), age), Owner: "w"}
	st.present, st.blob, st.etag = true, vxEnc(old), "w"
	l := NewLeaser()
	l.SetClient(st)
	l.Bucket, l.Owner, l.TTL = "b", "j", 3*time.Second
	lease, err := l.AcquireLease(context.Background())
	expired := !base.Before(old.ExpiresAt)
	if err != nil {
		var exists *litestream.LeaseExistsError
		vx.Assert("refused-only-while-unexpired", vx.And(vx.Not(expired), errors.As(err, &exists)))
		vx.Assert("refusal-leaves-store-unchanged", st.etag == "w")
		return
	}
	vx.Assert("takeover-only-after-expiry", expired)
	vx.Assert("generation-increases-by-one", lease.Generation == old.Generation+1)
}

// VxC20Renew: RenewLease by j of the lease it believes it holds.
func VxC20Renew() {
	wd, l := vxNewWorld(true)
	held := *wd.j
	lease, err := l.RenewLease(context.Background(), wd.j)
	wd.after()
	if err != nil {
		// a lost lease is reported as such, and the store is whatever the others left
		vx.ObserveBool("not-held", errors.Is(err, litestream.ErrLeaseNotHeld))
		vx.Assert("renew-error-is-not-held", errors.Is(err, litestream.ErrLeaseNotHeld))
		return
	}
	now := time.Now()
	vx.Assert("renewed-lease-is-the-stored-record", wd.isStored(lease))
	vx.Assert("renew-keeps-generation-and-owner", vx.And(lease.Generation == held.Generation, lease.Owner == "j"))
	vx.Assert("renew-extends", vx.And(lease.ExpiresAt.After(now), vx.Not(lease.ExpiresAt.After(now.Add(3*time.Second)))))
	vx.Assert("no-two-unexpired-holders", vx.Not(now.Before(wd.w.ExpiresAt)))
}

// VxC20Release: ReleaseLease by j.
func VxC20Release() {
	wd, l := vxNewWorld(true)
	wd.st.noCondDelete = vx.Fault("storeRejectsConditionalDelete")
	err := l.ReleaseLease(context.Background(), wd.j)
	wd.after()
	if wd.st.rejected > 0 {
		// whatever the client makes of that answer (an error is fine: the record then
		// stays until it expires), the witness's lease and the write discipline hold
		return
	}
	if err != nil {
		ok := errors.Is(err, litestream.ErrLeaseNotHeld) || errors.Is(err, ErrLeaseAlreadyReleased)
		vx.Assert("release-error-is-not-held-or-gone", ok)
		return
	}
	vx.Assert("released-record-is-gone", !wd.st.present)
}

// VxC20Stale: with the stored etag different from j's, renew and release fail
// with ErrLeaseNotHeld and leave the store untouched (no interference here).
func VxC20Stale() {
	st := &vxStore{}
	base := time.Now()
	exp, _ := vxInstant(base, "exp")
	cur := &litestream.Lease{Generation: 7, ExpiresAt: exp, Owner: "w"}
	st.present, st.blob, st.etag = true, vxEnc(cur), "w"
	l := NewLeaser()
	l.SetClient(st)
	l.Bucket, l.Owner, l.TTL = "b", "j", 3*time.Second
	jexp, _ := vxInstant(base, "jexp")
	mine := &litestream.Lease{Generation: 6, ExpiresAt: jexp, Owner: "j", ETag: "j0"}
	_, err := l.RenewLease(context.Background(), mine)
	vx.Assert("stale-renew-not-held", errors.Is(err, litestream.ErrLeaseNotHeld))
	vx.Assert("stale-renew-leaves-store", st.present && st.etag == "w" && bytes.Equal(st.blob, vxEnc(cur)))
	err = l.ReleaseLease(context.Background(), mine)
	vx.Assert("stale-release-not-held", errors.Is(err, litestream.ErrLeaseNotHeld))
	vx.Assert("stale-release-leaves-store", st.present && st.etag == "w" && bytes.Equal(st.blob, vxEnc(cur)))
}
