package file

// C11 / C03 / C15 harnesses for the file replica backend: WriteLTXFile's publish
// tail, its listing (CreatedAt = header timestamp), and deletion after compaction.

import (
	"bytes"
	"context"
	"io"
	"strings"
	"time"

	"github.com/benbjohnson/litestream"
	"github.com/benbjohnson/litestream/internal/vx"
	"github.com/superfly/ltx"
)

const vxPS = 512

func vxLTXBytes(min, max ltx.TXID, commit uint32, tsMillis int64, pgnos []uint32, tag byte) []byte {
	var buf bytes.Buffer
	enc, err := ltx.NewEncoder(&buf)
	if err != nil {
		panic(err)
	}
	if err := enc.EncodeHeader(ltx.Header{Version: ltx.Version, Flags: ltx.HeaderFlagNoChecksum, PageSize: vxPS, Commit: commit, MinTXID: min, MaxTXID: max, Timestamp: tsMillis}); err != nil {
		panic(err)
	}
	for _, p := range pgnos {
		data := make([]byte, vxPS)
		data[0] = tag
		if err := enc.EncodePage(ltx.PageHeader{Pgno: p}, data); err != nil {
			panic(err)
		}
	}
	if err := enc.Close(); err != nil {
		panic(err)
	}
	return buf.Bytes()
}

func vxTraceHas(prefix string) bool {
	for _, l := range vx.FSTrace() {
		if strings.HasPrefix(l, prefix) {
			return true
		}
	}
	return false
}

// VxC11FileWrite: WriteLTXFile with every file-system call allowed to fail.
func VxC11FileWrite() {
	root := vx.TempDir() + "/replica"
	c := NewReplicaClient(root)
	level := vx.Choose("level", 0, 1)
	data := vxLTXBytes(2, 2+ltx.TXID(level), 2, 1700000001000, []uint32{1}, 7)
	final := c.LTXFilePath(level, 2, 2+ltx.TXID(level))
	// the name may exist already (a forced snapshot, a compaction re-run after a
	// restart, an upload retried after its directory flush failed)
	if vx.Fault("nameExists") {
		vx.FSWriteFile(final, vxLTXBytes(2, 2+ltx.TXID(level), 2, 1700000000000, []uint32{1}, 3))
	}
	vx.FSFaults(true)
	info, err := c.WriteLTXFile(context.Background(), level, 2, 2+ltx.TXID(level), bytes.NewReader(data))
	vx.FSFaults(false)
	vx.Assert("renamed-file-was-flushed-and-closed", vx.FSEvents("rename-of-unsynced-file") == 0)
	if !vxTraceHas("FAIL unlink") {
		vx.Assert("temp-file-never-survives", !vx.FSExists(final+".tmp"))
	}
	if vx.FSExists(final) && err == nil {
		vx.Assert("visible-file-is-complete", vx.FSComplete(final) && bytes.Equal(vx.FSReadFile(final), data))
	}
	if err != nil {
		return
	}
	vx.Assert("success-published-the-file", vx.FSExists(final) && !vx.FSFileDirty(final))
	vx.Assert("success-only-after-directory-flush", !vx.FSDirDirty(c.LTXLevelDir(level)))
	vx.Assert("info-describes-the-file", info != nil && info.Size == int64(len(data)) && info.CreatedAt.Equal(time.UnixMilli(1700000001000)))
}

// vxPiecewise hands a stream out in small pieces (a network body, the pipe of a
// compaction) and may end the caller's context after one of them.
type vxPiecewise struct {
	r      io.Reader
	piece  int
	reads  int
	after  int // end the context after this many reads (0 = never)
	cancel context.CancelFunc
}

func (p *vxPiecewise) Read(b []byte) (int, error) {
	if len(b) > p.piece {
		b = b[:p.piece]
	}
	n, err := p.r.Read(b)
	p.reads++
	if p.after > 0 && p.reads == p.after {
		p.cancel()
	}
	return n, err
}

// VxC03FileWriteStream: WriteLTXFile fed piece by piece while its context (a
// request deadline, a shutdown) ends at an arbitrary point of the stream: whatever
// it answers, a file under the final name is the whole stream, and success means
// the whole stream is there.
func VxC03FileWriteStream() {
	root := vx.TempDir() + "/replica"
	c := NewReplicaClient(root)
	data := vxLTXBytes(2, 2, 2, 1700000001000, []uint32{1, 2}, 7)
	final := c.LTXFilePath(0, 2, 2)
	ctx, cancel := context.WithCancel(context.Background())
	defer cancel()
	src := &vxPiecewise{r: bytes.NewReader(data), piece: 300, after: vx.Choose("ctxEndsAfterRead", 0, 4), cancel: cancel}
	info, err := c.WriteLTXFile(ctx, 0, 2, 2, src)
	if vx.FSExists(final) {
		vx.Assert("visible-file-is-the-whole-stream", vx.FSComplete(final) && bytes.Equal(vx.FSReadFile(final), data))
	}
	if err == nil {
		vx.Assert("success-means-the-whole-stream-is-published", vx.FSExists(final) && info != nil && info.Size == int64(len(data)))
	} else {
		vx.Assert("refused-stream-leaves-no-temp-file", !vx.FSExists(final+".tmp"))
	}
	if src.after == 0 {
		vx.Assert("uninterrupted-stream-is-accepted", err == nil)
	}
}

// VxC03FileWrite: kill before every mutating operation of WriteLTXFile.
func VxC03FileWrite() {
	root := vx.TempDir() + "/replica"
	c := NewReplicaClient(root)
	old := vxLTXBytes(1, 1, 2, 1700000000000, []uint32{1, 2}, 5)
	vx.FSWriteFile(c.LTXFilePath(0, 1, 1), old)
	data := vxLTXBytes(2, 2, 2, 1700000001000, []uint32{1}, 7)
	final := c.LTXFilePath(0, 2, 2)
	vx.FSCrashAt(vx.Choose("crash", 0, 8)) // 0 = no kill
	var err error
	crashed := vx.FSRun(func() { _, err = c.WriteLTXFile(context.Background(), 0, 2, 2, bytes.NewReader(data)) })
	if !crashed {
		vx.Assert("uncrashed-write-succeeds", err == nil && vx.FSExists(final))
	}
	for _, name := range vx.FSList(c.LTXLevelDir(0)) {
		if strings.HasSuffix(name, ".ltx") {
			p := c.LTXLevelDir(0) + "/" + name
			vx.Assert("final-name-is-a-complete-file", vx.FSComplete(p))
		}
	}
	vx.Assert("earlier-file-survives", bytes.Equal(vx.FSReadFile(c.LTXFilePath(0, 1, 1)), old))
	// what a restarted replica computes as its position: the listing ignores temp files
	itr, lerr := c.LTXFiles(context.Background(), 0, 0, false)
	vx.Assert("listing-works-after-kill", lerr == nil)
	var max ltx.TXID
	for itr.Next() {
		if itr.Item().MaxTXID > max {
			max = itr.Item().MaxTXID
		}
	}
	want := ltx.TXID(1)
	if vx.FSExists(final) {
		want = 2
	}
	vx.Assert("listed-position-is-highest-complete-file", max == want)
	// restart: a new client on the same directory retries the upload (what the
	// replica does for every TXID above the listed position); whatever the kill
	// left behind, the retry goes through without manual intervention
	c2 := NewReplicaClient(root)
	_, rerr := c2.WriteLTXFile(context.Background(), 0, 2, 2, bytes.NewReader(data))
	vx.Assert("retry-after-kill-succeeds", rerr == nil && vx.FSComplete(final) && bytes.Equal(vx.FSReadFile(final), data))
	vx.Assert("retry-leaves-no-temp-file", !vx.FSExists(final+".tmp"))
}

// VxC15FileTimestamp: a file written through the backend is listed with
// CreatedAt equal to its header timestamp (what timestamp restore filters on).
func VxC15FileTimestamp() {
	root := vx.TempDir() + "/replica"
	c := NewReplicaClient(root)
	ms := int64(1700000000000) + int64(vx.Choose("sec", 0, 3))*1000 + int64(vx.Choose("ms", 0, 2))*250
	data := vxLTXBytes(3, 3, 2, ms, []uint32{2}, 9)
	_, err := c.WriteLTXFile(context.Background(), 0, 3, 3, bytes.NewReader(data))
	vx.Assert("write-succeeds", err == nil)
	itr, lerr := c.LTXFiles(context.Background(), 0, 0, true)
	vx.Assert("listing-works", lerr == nil && itr.Next())
	got := itr.Item()
	vx.Assert("listed-createdat-is-header-timestamp", got.MinTXID == 3 && got.CreatedAt.Equal(time.UnixMilli(ms)))
}

// VxC11Retention: level-0 files are deleted only after the level-1 file that
// supersedes them is durable (content flushed, directory flushed).
func VxC11Retention() {
	root := vx.TempDir() + "/replica"
	c := NewReplicaClient(root)
	now := time.Now()
	for t := 1; t <= 3; t++ {
		pg := []uint32{1}
		if t == 1 {
			pg = []uint32{1, 2}
		}
		p := c.LTXFilePath(0, ltx.TXID(t), ltx.TXID(t))
		vx.FSWriteFile(p, vxLTXBytes(ltx.TXID(t), ltx.TXID(t), 2, 1700000000000+int64(t), pg, byte(t)))
		vx.FSSetMtime(p, vx.TimeAgo(now, 100))
	}
	comp := litestream.NewCompactor(c, nil)
	ctx := context.Background()
	info, err := comp.Compact(ctx, 1)
	vx.Assert("compaction-succeeds", err == nil && info != nil && info.MinTXID == 1 && info.MaxTXID == 3)
	l1 := c.LTXFilePath(1, 1, 3)
	vx.Assert("compacted-file-durable-before-any-delete", vx.FSExists(l1) && !vx.FSFileDirty(l1) && !vx.FSDirDirty(c.LTXLevelDir(1)) && len(vx.FSUnlinked()) == 0)
	err = comp.EnforceL0Retention(ctx, 10*time.Second)
	vx.Assert("retention-succeeds", err == nil)
	vx.Assert("no-delete-before-publish-durable", vx.FSEvents("unlink-before-publish-durable") == 0)
	vx.Assert("newest-level0-file-kept", vx.FSExists(c.LTXFilePath(0, 3, 3)))
}
