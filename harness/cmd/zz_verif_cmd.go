package main

// C14 harness for the command-line layer: the start-up option
// -restore-if-db-not-exists must never touch a database file that exists, whatever
// it holds - also a zero-length file, which is what SQLite leaves when an
// application has opened a new database and not committed yet.

import (
	"bytes"
	"context"

	"github.com/benbjohnson/litestream/internal/vx"
)

func VxC14RestoreIfNeeded() {
	dir := vx.TempDir()
	path := dir + "/app.db"
	content := []byte("SQLite format 3\x00 live database")
	if vx.Fault("emptyFile") {
		content = []byte{}
	}
	vx.FSWriteFile(path, content)
	withWAL := vx.Fault("walPresent")
	if withWAL {
		vx.FSWriteFile(path+"-wal", []byte("frames"))
	}
	c := &ReplicateCommand{}
	err := c.restoreIfNeeded(context.Background(), &DBConfig{Path: path, Replica: &ReplicaConfig{Path: dir + "/replica"}})
	vx.Assert("existing-database-is-left-alone", vx.FSExists(path) && bytes.Equal(vx.FSReadFile(path), content))
	if withWAL {
		vx.Assert("existing-wal-is-left-alone", vx.FSExists(path+"-wal"))
	}
	vx.ObserveBool("ok", err == nil)
}
