package litestream

// C13 harness (decision kernel): checkpointIfNeeded and the conditions around
// it in syncLocked, for every configuration and WAL size. The checkpoint itself
// is the environment cut E-CKPT (DESIGN.md, C13): with nothing pinned, a
// checkpoint issued by litestream backfills the whole WAL and the following
// bookkeeping write restarts it, leaving exactly one (already copied) frame.

import (
	"context"
	"errors"
	"os"
	"strings"
	"time"

	"github.com/benbjohnson/litestream/internal/vx"
)

var (
	vxCkptStub    bool
	vxCkptModes   []string
	vxCkptOutcome func(mode string) int // 0 restarts the WAL, 1 busy, 2 ran but the WAL was not restarted
)

func (db *DB) checkpointWithExecutor(ctx context.Context, mode string, exec *syncExecutor) (bool, error) {
	if !vxCkptStub {
		return db.checkpointWithExecutorReal(ctx, mode, exec)
	}
	vxCkptModes = append(vxCkptModes, mode)
	exec.checkpointAttempted = true
	switch vxCkptOutcome(mode) {
	case 1:
		return false, errors.New("database is locked (SQLITE_BUSY)")
	case 2:
		exec.state.syncedSinceCheckpoint = false
		return false, nil
	}
	// E-CKPT: the WAL now holds litestream's own bookkeeping frame only, already copied
	exec.state.lastSyncedWALOffset = calcWALSize(uint32(db.pageSize), 1)
	exec.state.syncedToWALEnd = true
	exec.state.syncedSinceCheckpoint = false
	exec.state.truncatePassiveFailed = false
	return true, nil
}

type vxCkptConfig struct {
	db        *DB
	frame     int64
	minN, trN uint64
	lowest    uint64 // the lowest configured threshold, in frames
}

func vxCkptDB() *vxCkptConfig {
	psi := 3
	if vx.Param("ONEPS", 0) == 0 {
		psi = vx.Choose("pagesize", 0, 7)
	}
	ps := vxPageSizes[psi]
	db := NewDB(vx.TempDir() + "/db")
	db.pageSize = ps
	c := &vxCkptConfig{db: db, frame: int64(WALFrameHeaderSize + ps)}
	c.minN = vx.Range("minCheckpointPageN", 1, 1<<17-1)
	c.trN = vx.Range("truncatePageN", 0, 1<<17-1)
	db.MinCheckpointPageN = int(c.minN)
	db.TruncatePageN = int(c.trN)
	eff := vx.IteU64(c.trN == 0, DefaultTruncatePageN, c.trN)
	c.lowest = vx.IteU64(eff < c.minN, eff, c.minN)
	// the database file handle is only used for its modification time
	vx.FSWriteFile(db.path, []byte{0})
	vx.FSSetMtime(db.path, vx.TimeAgo(time.Now(), vx.Range("dbage", 0, 200)))
	f, err := os.Open(db.path)
	if err != nil {
		panic(err)
	}
	db.f = f
	db.CheckpointInterval = time.Duration(vx.Choose("intervalSec", 0, 2)*60) * time.Second
	return c
}

func (c *vxCkptConfig) walSize(frames uint64) int64 { return WALHeaderSize + c.frame*int64(frames) }

// VxC13Bound: after a sync that reached the end of the WAL, either the WAL is
// below every threshold or a checkpoint was requested in the prescribed mode.
func VxC13Bound() {
	c := vxCkptDB()
	db := c.db
	defer db.f.Close()
	// frames in the live generation before and after this sync round
	before := vx.Range("framesBefore", 0, 1<<18-1)
	after := vx.Range("framesAfter", 0, 1<<18-1)
	vx.Assume(before <= after)
	exec := &syncExecutor{}
	exec.state.lastSyncedWALOffset = c.walSize(after)
	exec.state.syncedSinceCheckpoint = vx.Bool("syncedSince")
	pfb := vx.Bool("passiveFailedBefore")
	exec.state.truncatePassiveFailed = pfb
	vxCkptStub, vxCkptModes = true, nil
	vxCkptOutcome = func(mode string) int { return 0 }
	defer func() { vxCkptStub = false }()
	err := db.checkpointIfNeeded(context.Background(), exec, c.walSize(before), c.walSize(after))
	vx.Assert("no-error-when-checkpoints-succeed", err == nil)
	eff := vx.IteU64(c.trN == 0, DefaultTruncatePageN, c.trN)
	if len(vxCkptModes) == 0 {
		// nothing requested: the WAL must be below the regular threshold now, and was
		// below the emergency threshold when the round began
		// ("plus litestream's own bookkeeping frame": a one-frame WAL is never checkpointed)
		vx.Assert("no-checkpoint-only-below-min-threshold", vx.Or(after < c.minN, after <= 1))
		vx.Assert("no-checkpoint-only-below-truncate-threshold", before < eff)
		return
	}
	// a checkpoint was requested; under E-CKPT the WAL is back to one frame
	vx.Assert("wal-back-to-one-frame", exec.state.lastSyncedWALOffset == c.walSize(1))
	if vxCkptModes[0] == CheckpointModeTruncate || len(vxCkptModes) > 1 {
		vx.Assert("truncate-only-at-emergency-threshold", before >= eff)
	}
	if vxCkptModes[0] == CheckpointModeTruncate {
		// PASSIVE is skipped only after it already failed at this threshold
		vx.Assert("truncate-first-only-after-passive-failed", pfb)
	}
}

// VxC13Lag: configurations whose emergency threshold is the lower one: the code
// evaluates it on the size before the round, so the request comes one round
// later; in the next round (nothing copied in between) it must come.
func VxC13Lag() {
	c := vxCkptDB()
	db := c.db
	defer db.f.Close()
	eff := vx.IteU64(c.trN == 0, DefaultTruncatePageN, c.trN)
	vx.Assume(eff < c.minN)
	after := vx.Range("framesAfter", 0, 1<<18-1)
	vx.Assume(vx.And(after >= eff, after < c.minN))
	exec := &syncExecutor{}
	exec.state.lastSyncedWALOffset = c.walSize(after)
	vxCkptStub, vxCkptModes = true, nil
	vxCkptOutcome = func(mode string) int { return 0 }
	defer func() { vxCkptStub = false }()
	// next round: nothing new, the size before the round is the size after the last one
	// (syncLocked calls the check because the emergency threshold is exceeded)
	vx.Assert("next-round-calls-the-check", db.exceedsTruncateThreshold(c.walSize(after)))
	err := db.checkpointIfNeeded(context.Background(), exec, c.walSize(after), c.walSize(after))
	vx.Assert("lagging-request-arrives-next-round", err == nil && len(vxCkptModes) > 0)
}

// VxC13Idle: from the steady state E-CKPT leaves behind, an idle sync (nothing
// copied) requests no checkpoint: an idle database stays silent.
func VxC13Idle() {
	c := vxCkptDB()
	db := c.db
	defer db.f.Close()
	exec := &syncExecutor{}
	exec.state.lastSyncedWALOffset = c.walSize(1)
	exec.state.syncedToWALEnd = true
	exec.state.syncedSinceCheckpoint = false
	vxCkptStub, vxCkptModes = true, nil
	vxCkptOutcome = func(mode string) int { return 0 }
	defer func() { vxCkptStub = false }()
	// H5 (regular threshold of one page) was repaired; the same loop remains for an
	// emergency threshold of one page, which the repository's own test relies on
	vx.Known("H5b", vx.IteU64(c.trN == 0, DefaultTruncatePageN, c.trN) == 1)
	err := db.checkpointIfNeeded(context.Background(), exec, c.walSize(1), c.walSize(1))
	vx.Assert("idle-sync-requests-no-checkpoint", err == nil && len(vxCkptModes) == 0)
}

// VxC13Busy: when checkpoints are refused (busy) or do not restart the WAL, the
// decision code neither fails nor loops: at most two requests per round, busy is
// not an error for PASSIVE, and the emergency path escalates to TRUNCATE.
func VxC13Busy() {
	c := vxCkptDB()
	db := c.db
	defer db.f.Close()
	before := vx.Range("framesBefore", 0, 1<<18-1)
	after := vx.Range("framesAfter", 0, 1<<18-1)
	vx.Assume(before <= after)
	exec := &syncExecutor{}
	exec.state.lastSyncedWALOffset = c.walSize(after)
	exec.state.syncedSinceCheckpoint = vx.Bool("syncedSince")
	exec.state.truncatePassiveFailed = vx.Bool("passiveFailedBefore")
	vxCkptStub, vxCkptModes = true, nil
	vxCkptOutcome = func(mode string) int {
		if mode == CheckpointModePassive {
			return vx.Choose("passiveOutcome", 0, 2)
		}
		return vx.Choose("truncateOutcome", 0, 1) * 2 // TRUNCATE blocks: it succeeds or leaves the WAL
	}
	defer func() { vxCkptStub = false }()
	err := db.checkpointIfNeeded(context.Background(), exec, c.walSize(before), c.walSize(after))
	vx.Assert("busy-passive-is-not-an-error", err == nil)
	vx.Assert("at-most-two-requests-per-round", len(vxCkptModes) <= 2)
	eff := vx.IteU64(c.trN == 0, DefaultTruncatePageN, c.trN)
	if len(vxCkptModes) == 2 {
		vx.Assert("escalation-is-passive-then-truncate", vxCkptModes[0] == CheckpointModePassive && vxCkptModes[1] == CheckpointModeTruncate)
		vx.Assert("escalation-only-at-emergency-threshold", before >= eff)
	}
}

// VxC13Rounds: the real syncLocked (executor set-up, the gate in front of
// checkpointIfNeeded, the flag updates) over two rounds: a round that copies a
// burst, whose checkpoint may be refused (another connection holds a lock for a
// moment), followed by an idle round that copies nothing. With nothing pinned
// during the second round, the WAL must be below the lowest threshold after it
// (or a checkpoint was requested in it): a due checkpoint that was skipped is
// retried by the next sync even if that sync has nothing to copy.
func VxC13Rounds() {
	c := vxCkptDB()
	db := c.db
	defer db.f.Close()
	vx.FSWriteFile(db.path+"-wal", make([]byte, WALHeaderSize))
	e := vxNewSQLEnv(false)
	e.pageSize = int64(db.pageSize)
	defer func() { vxSQLHandler = nil }()
	db.Replica = NewReplicaWithClient(db, &vxStoreClient{})
	db.Replica.MonitorEnabled = false
	db.MonitorInterval = 0
	vx.FSMkdirAll(db.LTXLevelDir(0))
	ctx := context.Background()
	if err := db.init(ctx); err != nil {
		panic(err)
	}
	before := vx.Range("framesBefore", 1, 1<<18-1)
	after := vx.Range("framesAfter", 1, 1<<18-1)
	vx.Assume(before <= after)
	db.syncState.lastSyncedWALOffset = c.walSize(before)
	vxCkptStub, vxCkptModes = true, nil
	defer func() { vxCkptStub = false }()
	// round 1: the burst is copied; a requested checkpoint succeeds or is refused
	refused := vx.Fault("firstCheckpointRefused")
	vxCkptOutcome = func(mode string) int {
		if refused {
			if mode == CheckpointModePassive {
				return 1
			}
			return 2
		}
		return 0
	}
	vxGhostScript = []vxGhostRound{{orig: c.walSize(before), size: c.walSize(after), synced: true}}
	defer func() { vxGhostScript = nil }()
	_, err := db.syncLocked(ctx, 0)
	vx.Assert("round-with-refused-checkpoint-is-not-an-error", err == nil)
	if err != nil {
		return
	}
	// round 2: idle; nothing is pinned now
	vxCkptOutcome = func(string) int { return 0 }
	size1 := db.syncState.lastSyncedWALOffset
	requestedBefore := len(vxCkptModes)
	vxGhostScript = []vxGhostRound{{orig: size1, size: size1, synced: false}}
	_, err = db.syncLocked(ctx, 0)
	vx.Assert("idle-round-is-not-an-error", err == nil)
	if err != nil {
		return
	}
	frames := uint64((db.syncState.lastSyncedWALOffset - WALHeaderSize) / c.frame)
	vx.Known("H5b", vx.IteU64(c.trN == 0, DefaultTruncatePageN, c.trN) == 1)
	vx.Assert("wal-bounded-after-the-idle-round", vx.Or(frames < c.lowest, frames <= 1))
	_ = requestedBefore
}

// VxC13Contention: a due PASSIVE checkpoint that meets an application write transaction.
// The application holds the write lock for no longer than the configured
// BusyTimeout; whichever pooled connection litestream's barrier statement runs on
// (the long-running read transaction pins one; connections are configured by the
// DSN, a PRAGMA only configures the connection it ran on), the barrier waits and
// the checkpoint is carried out, not skipped - under steady application writes a
// skipped checkpoint is never made up for and the WAL grows.
func VxC13Contention() {
	dir := vx.TempDir()
	path := dir + "/app.db"
	vx.FSWriteFile(path, []byte("SQLite format 3\x00"))
	vx.FSWriteFile(path+"-wal", make([]byte, WALHeaderSize))
	e := vxNewSQLEnv(false)
	defer func() { vxSQLHandler = nil }()
	db := NewDB(path)
	if vx.Fault("shortTimeout") {
		db.BusyTimeout = 200 * time.Millisecond
	}
	if err := db.init(context.Background()); err != nil {
		panic(err)
	}
	vx.FSMkdirAll(db.LTXLevelDir(0))
	vxSyncStub, vxSyncStubCalls = true, 0
	defer func() { vxSyncStub = false }()
	// the application is in the middle of a write transaction that ends within the timeout
	e.appLockMs = int64(vx.Range("appHoldsWriteLockMs", 1, uint64(db.BusyTimeout.Milliseconds())))
	exec := &syncExecutor{}
	_, err := db.checkpointWithExecutorReal(context.Background(), CheckpointModePassive, exec)
	ran := false
	for _, ev := range vxProtoLog {
		if ev.kind == "ckpt" {
			ran = true
		}
	}
	// (a WAL copy that fails for its own reasons ends the call early; not the subject here)
	if err != nil && strings.Contains(err.Error(), "vx: wal copy failed") {
		return
	}
	vx.Assert("checkpoint-carried-out-when-the-lock-is-released-within-the-busy-timeout", ran)
}

// VxC13Drain: the real DB.Sync (chunk loop, syncOnce, syncLocked with its gate in
// front of checkpointIfNeeded) draining a backlog of several byte-budget chunks
// while the application keeps committing: every pass but the last is cut by the
// budget, and the WAL file is longer at the end than it was when Sync was called.
// When Sync returns, the checkpoint thresholds have been evaluated on the size the
// drain ended at: the WAL is below the lowest threshold or a checkpoint was
// requested - under sustained writes this is the only thing that bounds the WAL.
func VxC13Drain() {
	c := vxCkptDB()
	db := c.db
	defer db.f.Close()
	e := vxNewSQLEnv(false)
	e.pageSize = int64(db.pageSize)
	defer func() { vxSQLHandler = nil }()
	db.Replica = NewReplicaWithClient(db, &vxStoreClient{})
	db.Replica.MonitorEnabled = false
	db.MonitorInterval = 0
	vx.FSMkdirAll(db.LTXLevelDir(0))
	ctx := context.Background()
	start := vx.Range("framesSynced", 1, 1<<16)
	chunk := uint64(vx.Choose("chunkFrames", 1, 2))
	// the WAL when Sync is called: two chunks and a bit ahead of the synced offset
	atCall := start + 2*chunk + uint64(vx.Choose("tail", 0, 1))
	vx.FSSparseFileSym(db.path+"-wal", c.walSize(atCall))
	if err := db.init(ctx); err != nil {
		panic(err)
	}
	db.syncState.lastSyncedWALOffset = c.walSize(start)
	db.MaxSyncWALBytes = int64(chunk) * c.frame
	vxCkptStub, vxCkptModes = true, nil
	vxCkptOutcome = func(string) int { return 0 }
	defer func() { vxCkptStub = false }()
	// commits land while each pass runs
	grow := uint64(vx.Choose("framesPerPass", 1, 2))
	wal := atCall
	landing := func() {
		wal += grow
		vx.FSSparseFileSym(db.path+"-wal", c.walSize(wal))
	}
	// passes: cut by the budget until the remainder fits into one chunk
	pos := start
	var script []vxGhostRound
	for i := 0; i < 3; i++ {
		script = append(script, vxGhostRound{orig: c.walSize(pos), size: c.walSize(pos + chunk), synced: true, limited: true, before: landing})
		pos += chunk
	}
	// the writer pauses: the last pass reaches the end of the WAL
	final := atCall + 3*grow
	vx.Assume(pos <= final)
	script = append(script, vxGhostRound{orig: c.walSize(pos), size: c.walSize(final), synced: true})
	vxGhostScript = script
	defer func() { vxGhostScript = nil }()
	err := db.Sync(ctx)
	vx.Assert("drain-is-not-an-error", err == nil)
	if err != nil {
		return
	}
	vx.Known("H5b", vx.IteU64(c.trN == 0, DefaultTruncatePageN, c.trN) == 1)
	if len(vxCkptModes) == 0 {
		// nothing requested during the whole drain: the WAL it ended at is below the
		// regular threshold, and was below the emergency threshold when the last pass
		// began (the emergency threshold is evaluated on the size before a round, C13's
		// "arrives in the next round")
		eff := vx.IteU64(c.trN == 0, DefaultTruncatePageN, c.trN)
		vx.Assert("wal-bounded-after-the-drain", vx.And(vx.Or(final < c.minN, final <= 1), pos < eff))
	}
}

// VxC13IdleFile: the idle steady state after a PASSIVE checkpoint restarted the
// WAL: the live generation holds litestream's one bookkeeping frame, already
// copied, while the WAL *file* still carries the stale tail of the previous
// generation - any number of frames, also more than the emergency threshold. The
// real syncLocked and verifyAndSyncWithExecutor (which picks the size the
// checkpoint decision is made on) run with verify and the copy cut out: an idle
// sync must request no checkpoint, whatever the file size.
func VxC13IdleFile() {
	c := vxCkptDB()
	db := c.db
	defer db.f.Close()
	tail := vx.Range("staleTailFrames", 0, 1<<18-1)
	vx.FSSparseFileSym(db.path+"-wal", c.walSize(1+tail))
	e := vxNewSQLEnv(false)
	e.pageSize = int64(db.pageSize)
	defer func() { vxSQLHandler = nil }()
	db.Replica = NewReplicaWithClient(db, &vxStoreClient{})
	db.Replica.MonitorEnabled = false
	db.MonitorInterval = 0
	vx.FSMkdirAll(db.LTXLevelDir(0))
	ctx := context.Background()
	if err := db.init(ctx); err != nil {
		panic(err)
	}
	one := c.walSize(1)
	db.syncState.lastSyncedWALOffset = one
	db.syncState.syncedToWALEnd = vx.Fault("syncedToFileEnd")
	vx.Assume(vx.Implies(db.syncState.syncedToWALEnd, tail == 0))
	db.syncState.syncedSinceCheckpoint = false
	vxInner = &vxInnerScript{info: syncInfo{offset: one}, res: syncResult{newWALSize: one, syncedToWALEnd: db.syncState.syncedToWALEnd}}
	defer func() { vxInner = nil }()
	vxCkptStub, vxCkptModes = true, nil
	vxCkptOutcome = func(string) int { return 0 }
	defer func() { vxCkptStub = false }()
	vx.Known("H5b", vx.IteU64(c.trN == 0, DefaultTruncatePageN, c.trN) == 1)
	_, err := db.syncLocked(ctx, 0)
	vx.Assert("idle-sync-requests-no-checkpoint", err == nil && len(vxCkptModes) == 0)
}
