package litestream

// C08 / C15 harness: restore plans over an arbitrary set of files.
// Injected by overlay; never part of the repository.

import (
	"context"
	"time"

	"github.com/benbjohnson/litestream/internal/vx"
	"github.com/superfly/ltx"
)

// vxPlanClient serves a fixed file set through the sorted slice iterator (the
// contract every backend follows: files of one level, ordered by (min,max)).
type vxPlanClient struct {
	ReplicaClient
	files []*ltx.FileInfo
}

func (c *vxPlanClient) LTXFiles(ctx context.Context, level int, seek ltx.TXID, useMetadata bool) (ltx.FileIterator, error) {
	var a []*ltx.FileInfo
	for _, f := range c.files {
		if f.Level == level && f.MinTXID >= seek {
			a = append(a, f)
		}
	}
	return ltx.NewFileInfoSliceIterator(a), nil
}

const vxEpoch = 1_700_000_000 // base for symbolic timestamps (seconds)

var vxLevels = [4]int{0, 1, 2, SnapshotLevel}

// vxFileSet builds n files with concrete levels (every non-decreasing level
// sequence is explored) and symbolic ranges and timestamps. Files are given in
// (level,min,max) order: the planner's input is a set, so this loses nothing.
func vxFileSet(n int, m uint64, withTime bool) []*ltx.FileInfo {
	files := make([]*ltx.FileInfo, n)
	prevLvlIdx := 0
	for i := 0; i < n; i++ {
		li := vx.Choose("lvl", prevLvlIdx, 3)
		prevLvlIdx = li
		f := &ltx.FileInfo{Level: vxLevels[li]}
		f.MinTXID = ltx.TXID(vx.U64("min"))
		f.MaxTXID = ltx.TXID(vx.U64("max"))
		vx.Assume(vx.And(f.MinTXID >= 1, vx.And(f.MinTXID <= f.MaxTXID, uint64(f.MaxTXID) <= m)))
		if f.Level == SnapshotLevel {
			vx.Assume(f.MinTXID == 1)
		}
		if withTime {
			ts := vx.U64("ts")
			vx.Assume(ts <= 8)
			f.CreatedAt = time.Unix(int64(vxEpoch+ts), 0).UTC()
		}
		f.Size = 4096
		if i > 0 && files[i-1].Level == f.Level {
			p := files[i-1]
			vx.Assume(vx.Or(p.MinTXID < f.MinTXID, vx.And(p.MinTXID == f.MinTXID, p.MaxTXID <= f.MaxTXID)))
		}
		files[i] = f
	}
	return files
}

// vxReach computes the reference reachability of D.1: the largest TXID some
// valid chain of eligible files reaches (0 if none), without quantifiers.
func vxReach(files []*ltx.FileInfo, elig []bool) uint64 {
	n := len(files)
	r := make([]bool, n)
	for i, f := range files {
		r[i] = vx.And(elig[i], f.MinTXID == 1)
	}
	for round := 0; round < n; round++ {
		nr := make([]bool, n)
		for i, f := range files {
			ext := false
			for j, g := range files {
				if i == j {
					continue
				}
				ext = vx.Or(ext, vx.And(r[j], vx.And(f.MinTXID <= g.MaxTXID+1, f.MaxTXID > g.MaxTXID)))
			}
			nr[i] = vx.Or(r[i], vx.And(elig[i], ext))
		}
		r = nr
	}
	var reach uint64
	for i, f := range files {
		reach = vx.IteU64(vx.And(r[i], uint64(f.MaxTXID) > reach), uint64(f.MaxTXID), reach)
	}
	return reach
}

func vxIndexOf(files []*ltx.FileInfo, p *ltx.FileInfo) int {
	for i, f := range files {
		if f == p {
			return i
		}
	}
	return -1
}

// vxCheckPlan states D.1 for one planner call.
func vxCheckPlan(files []*ltx.FileInfo, target uint64, hasT bool, tsec uint64, plan []*ltx.FileInfo, err error) {
	n := len(files)
	elig := make([]bool, n)
	for i, f := range files {
		e := true
		if target != 0 {
			e = vx.And(e, uint64(f.MaxTXID) <= target)
		}
		if hasT {
			e = vx.And(e, uint64(f.CreatedAt.Unix()) < vxEpoch+tsec)
		}
		elig[i] = e
	}
	reach := vxReach(files, elig)
	gap := false
	if target == 0 && !hasT {
		for _, f := range files {
			if f.Level != SnapshotLevel {
				gap = vx.Or(gap, uint64(f.MinTXID) > reach+1)
			}
		}
	}
	if err != nil {
		// completeness: an error is justified only by "nothing reaches the target" or a gap
		just := vx.Or(reach == 0, gap)
		if target != 0 {
			just = vx.Or(just, reach != target)
		}
		vx.Assert("plan-complete", just)
		return
	}
	vx.Assert("plan-nonempty", len(plan) > 0)
	if len(plan) == 0 {
		return
	}
	ok := plan[0].MinTXID == 1
	for i, p := range plan {
		k := vxIndexOf(files, p)
		vx.Assert("plan-member", k >= 0)
		if k < 0 {
			return
		}
		ok = vx.And(ok, elig[k])
		if i > 0 {
			q := plan[i-1]
			ok = vx.And(ok, vx.And(p.MinTXID <= q.MaxTXID+1, p.MaxTXID > q.MaxTXID))
		}
	}
	vx.Assert("plan-valid-chain", ok)
	last := uint64(plan[len(plan)-1].MaxTXID)
	if target != 0 {
		vx.Assert("plan-ends-at-target", last == target)
	} else {
		vx.Assert("plan-reaches-max", last == reach)
	}
	vx.Assert("gap-reported", vx.Not(gap))
}

// VxC08Latest: restore to the latest state.
func VxC08Latest() {
	n := vx.Param("N", 3)
	m := uint64(vx.Param("M", 5))
	files := vxFileSet(n, m, false)
	plan, err := CalcRestorePlan(context.Background(), &vxPlanClient{files: files}, 0, time.Time{}, vxLogger())
	vxCheckPlan(files, 0, false, 0, plan, err)
}

// VxC08Target: restore to a requested TXID.
func VxC08Target() {
	n := vx.Param("N", 3)
	m := uint64(vx.Param("M", 5))
	files := vxFileSet(n, m, false)
	target := vx.U64("target")
	vx.Assume(vx.And(target >= 1, target <= m))
	plan, err := CalcRestorePlan(context.Background(), &vxPlanClient{files: files}, ltx.TXID(target), time.Time{}, vxLogger())
	vxCheckPlan(files, target, false, 0, plan, err)
}

// VxC08Time: restore to a requested timestamp.
func VxC08Time() {
	n := vx.Param("N", 3)
	m := uint64(vx.Param("M", 5))
	files := vxFileSet(n, m, true)
	tsec := vx.U64("T")
	vx.Assume(tsec <= 9)
	T := time.Unix(int64(vxEpoch+tsec), 0).UTC()
	plan, err := CalcRestorePlan(context.Background(), &vxPlanClient{files: files}, 0, T, vxLogger())
	vxCheckPlan(files, 0, true, tsec, plan, err)
	if err == nil {
		for _, p := range plan {
			vx.Assert("no-file-at-or-after-T", p.CreatedAt.Before(T))
		}
	}
}
