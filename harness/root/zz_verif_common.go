package litestream

import "log/slog"

func vxLogger() *slog.Logger { return slog.Default() }
