package litestream

// C01 harnesses: what one DB.sync round publishes, from a symbolic WAL.
// Obligations 3 and 4 of DESIGN.md C01 (page set of each file, header
// arithmetic); continuity is C04, frame selection C09, upload C05, restore
// C08/C06/C10.

import (
	"context"
	"os"

	"github.com/benbjohnson/litestream/internal/vx"
	"github.com/superfly/ltx"
)

// VxC01Sync: one incremental or snapshot round over a WAL whose frames after
// the cursor have symbolic page numbers, images and commit marks, possibly
// ending in an open transaction.
func VxC01Sync() {
	dir := vx.TempDir()
	path := dir + "/app.db"
	base := [4]uint64{vx.U64("base"), vx.U64("base"), vx.U64("base"), 0}
	vx.FSWriteFile(path, vxDBFile(vxPageSize, base[:3]))
	fs := int64(WALFrameHeaderSize + vxPageSize)
	c := vx.Choose("copied", 0, 1) // frames already covered by earlier level-0 files
	m := vx.Choose("fresh", 0, 2)  // frames after the cursor
	g := vxGen{salt1: 100, salt2: 200}
	for i := 0; i < c; i++ {
		g.frames = append(g.frames, vxFrame{pgno: uint32(vx.Range("oldpg", 1, 3)), commit: 3, tag: vx.U64("oldtag")})
	}
	// fresh frames: page 1..4, commit mark 0 (inside a transaction), 3 or 4 (new size)
	seen4 := false
	var fresh []vxFrame
	for i := 0; i < m; i++ {
		pg := uint32(vx.Range("pg", 1, 4))
		cm := uint32(vx.Range("commit", 0, 4))
		vx.Assume(vx.Or(cm == 0, cm >= 3))
		seen4 = vx.Or(seen4, pg == 4)
		// growth is complete: the database is 4 pages only once page 4 was written
		vx.Assume(vx.Implies(cm == 4, seen4))
		// a page lies within the size its own transaction commits (SQLite invariant)
		fresh = append(fresh, vxFrame{pgno: pg, commit: cm, tag: vx.U64("tag")})
	}
	// SQLite invariant: at a commit, every page of the transaction is within the new size
	for i := range fresh {
		for j := i; j < len(fresh); j++ {
			isCommitOfI := fresh[j].commit != 0
			for k := i; k < j; k++ {
				isCommitOfI = vx.And(isCommitOfI, fresh[k].commit == 0)
			}
			vx.Assume(vx.Implies(isCommitOfI, fresh[i].pgno <= fresh[j].commit))
		}
	}
	g.frames = append(g.frames, fresh...)
	vx.FSWriteFile(path+"-wal", vxWALImageOf(vxPageSize, []vxGen{g}))

	db := NewDB(path)
	db.pageSize = vxPageSize
	f, err := os.Open(path)
	if err != nil {
		panic(err)
	}
	db.f = f
	defer f.Close()
	vx.FSMkdirAll(db.LTXLevelDir(0))
	pos := ltx.TXID(vx.Choose("pos", 1, 2))
	exec := &syncExecutor{pos: ltx.Pos{TXID: pos}}
	snapshot := vx.Fault("snapshot")
	info := syncInfo{offset: WALHeaderSize + int64(c)*fs, salt1: 100, salt2: 200, prevCommit: 3, snapshotting: snapshot}
	if snapshot {
		info.offset = WALHeaderSize
	}
	// the per-round byte budget (MaxSyncWALBytes): off, or one frame - which lets an
	// incremental copy stop at an earlier commit frame; a snapshot must ignore it, or
	// it would mix the database file with a prefix of the WAL
	var budget int64
	if vx.Fault("budget") {
		budget = fs
	}
	res, err := db.syncReal(context.Background(), false, exec, info, budget)
	vx.Assert("sync-no-error", err == nil)
	if err != nil {
		return
	}

	// reference: the frames of the scanned range up to its last commit
	scanned := fresh
	start := c
	if snapshot {
		scanned = g.frames
		start = 0
	}
	// Where the round stopped is taken from what it reports (the synced offset): it
	// must be a commit boundary of the scanned range, and what it published must be
	// the committed state up to there. Which commit boundary a bounded round picks is
	// its own business; an unbounded round and a snapshot must reach the last one.
	moreCommitted := false // committed frames this round left for the next one
	if res.synced {
		covered := int((int64(vx.Concrete(uint64(res.newWALSize))) - WALHeaderSize - int64(start)*fs) / fs)
		vx.Assert("round-stops-inside-the-scanned-range", covered >= 0 && covered <= len(scanned))
		if covered < 0 || covered > len(scanned) {
			return
		}
		if covered > 0 {
			vx.Assert("round-stops-at-a-commit-frame", scanned[covered-1].commit != 0)
		}
		for i := covered; i < len(scanned); i++ {
			moreCommitted = vx.Or(moreCommitted, scanned[i].commit != 0)
		}
		if budget == 0 || snapshot {
			vx.Assert("unbounded-round-reaches-the-last-commit", vx.Not(moreCommitted))
		}
		scanned = scanned[:covered]
	}
	lastCommit := -1
	anyCommit := false
	for i := range scanned {
		anyCommit = vx.Or(anyCommit, scanned[i].commit != 0)
	}
	final := db.LTXPath(0, pos+1, pos+1)
	if !res.synced {
		vx.Assert("nothing-published-only-without-commit", vx.Not(anyCommit) && !snapshot && !vx.FSExists(final))
		return
	}
	_ = lastCommit
	vx.Assert("file-is-numbered-pos-plus-one", vx.FSExists(final) && res.pos != nil && res.pos.TXID == pos+1)
	got, derr := vxDecodeLTX(vx.FSReadFile(final))
	vx.Assert("file-decodes", derr == nil)
	if derr != nil {
		return
	}
	vx.Assert("header-txids", got.min == pos+1 && got.max == pos+1)
	// committed[i]: frame i of the scanned range is at or before the last commit in the range
	n := len(scanned)
	commitAfter := make([]bool, n+1)
	for i := n - 1; i >= 0; i-- {
		commitAfter[i] = vx.Or(commitAfter[i+1], scanned[i].commit != 0)
	}
	var size uint32 = 3
	var nCommitted int64
	for i := 0; i < n; i++ {
		size = vx.IteU32(scanned[i].commit != 0, scanned[i].commit, size)
		nCommitted = vx.IteI64(scanned[i].commit != 0, int64(i+1), nCommitted)
	}
	vx.Assert("header-commit-is-last-commit", got.commit == size)
	// witness page q
	q := uint32(vx.Range("q", 1, 4))
	var want uint64
	inWAL := false
	for i := 0; i < n; i++ {
		hit := vx.And(commitAfter[i], scanned[i].pgno == q)
		want = vx.IteU64(hit, scanned[i].tag, want)
		inWAL = vx.Or(inWAL, hit)
	}
	var dbTag uint64
	for p := uint32(1); p <= 3; p++ {
		dbTag = vx.IteU64(q == p, base[p-1], dbTag)
	}
	want = vx.IteU64(inWAL, want, dbTag)
	var expectIn bool
	if snapshot {
		expectIn = q <= size
	} else {
		expectIn = vx.And(q <= size, vx.Or(inWAL, q > 3)) // changed pages, plus the growth range (3, size]
	}
	var have uint64
	found := false
	for _, p := range got.pages {
		hit := p.pgno == q
		have = vx.IteU64(hit, p.tag, have)
		found = vx.Or(found, hit)
	}
	vx.Assert("page-in-file-iff-committed-change-or-growth", found == expectIn)
	vx.Assert("page-image-is-latest-committed-version", vx.Implies(found, have == want))
	// header arithmetic and the synced offset
	vx.Assert("synced-offset-is-end-of-last-commit", res.newWALSize == WALHeaderSize+int64(start)*fs+nCommitted*fs)
	walSize := int64(len(vx.FSReadFile(path + "-wal")))
	// "synced to the end" is what later lets a shorter WAL pass for litestream's own
	// checkpoint: it may only be claimed when true (not claiming it costs a snapshot)
	vx.Assert("synced-to-end-claimed-only-at-the-end", vx.Implies(res.syncedToWALEnd, res.newWALSize == walSize))
	// a round that leaves committed frames behind says so (DB.Sync loops on it; an
	// extra round after a needless "limited" is harmless)
	vx.Assert("round-that-leaves-commits-behind-reports-limited", vx.Implies(moreCommitted, vx.And(res.limited, vx.Not(res.syncedToWALEnd))))
	vx.ObserveBool("snapshot", snapshot)
}

// VxC01Ack: the three entry points whose success is an acknowledgement - a
// sync-and-wait call, a `sync -wait` request (Store.SyncDB) and a clean shutdown
// (Close). The WAL copy is the contract model vxGhostWAL, everything around it is
// the real code: DB.Sync's chunk loop, syncLocked, checkpointIfNeeded (with the
// E-CKPT stand-in), Store.SyncDB, DB.Close, syncReplicaWithRetry and the real
// Replica.Sync / syncOnce / uploadLTXFile against a replica that keeps the
// bytes. Whatever the backlog (committed WAL chunks not yet copied, local files
// not yet uploaded) and whatever MaxSyncWALBytes, a nil result means that the
// whole committed WAL was copied and every local level-0 file is stored.
func VxC01Ack() {
	dir := vx.TempDir()
	path := dir + "/app.db"
	vx.FSWriteFile(path, []byte("SQLite format 3\x00"))
	vx.FSWriteFile(path+"-wal", make([]byte, WALHeaderSize))
	vxNewSQLEnv(false)
	defer func() { vxSQLHandler = nil }()
	db := NewDB(path)
	db.MonitorInterval = 0
	db.ShutdownSyncTimeout = 0
	c := &vxStoreClient{}
	db.Replica = NewReplicaWithClient(db, c)
	db.Replica.MonitorEnabled = false
	// local level-0 files 1..n of which the replica holds 1..k
	n := vx.Choose("local", 1, 3)
	k := vx.Choose("remote", 0, n)
	vx.FSMkdirAll(db.LTXLevelDir(0))
	for t := 1; t <= n; t++ {
		f := &vxLTX{level: 0, min: ltx.TXID(t), max: ltx.TXID(t), commit: 2, ts: int64(1000 + t), pages: []vxPg{{1, uint64(t)}}}
		if t == 1 {
			f.pages = []vxPg{{1, 1}, {2, 1}}
		}
		vx.FSWriteFile(db.LTXPath(0, f.min, f.max), vxEncodeLTX(f))
		if t <= k {
			c.put(f)
		}
	}
	// the replica position as the running process remembers it: unknown, or the true one
	if vx.Fault("posCached") {
		db.Replica.SetPos(ltx.Pos{TXID: ltx.TXID(k)})
	}
	store := NewStore([]*DB{db}, CompactionLevels{{Level: 0}})
	ctx := context.Background()
	if err := db.Open(); err != nil {
		panic(err)
	}
	if err := db.init(ctx); err != nil {
		panic(err)
	}
	// configuration: the per-round byte budget is off or on
	if vx.Fault("bounded") {
		db.MaxSyncWALBytes = 1 << 20
	} else {
		db.MaxSyncWALBytes = 0
	}
	g := &vxGhostWALState{pending: vx.Choose("pending", 0, 3)}
	vxGhostWAL = g
	defer func() { vxGhostWAL = nil }()
	vxCkptStub = true
	vxCkptOutcome = func(string) int { return 2 }
	defer func() { vxCkptStub = false }()
	// a background upload pass may be in flight when the acknowledging call queues
	// on the upload lock: it sampled the local position earlier, uploads the next
	// file and advances the replica position, then releases the lock
	if k+1 < n && vx.Fault("monitorPassInFlight") {
		next := ltx.TXID(k + 1)
		vxLockSyncHook = func() {
			if c.data == nil {
				c.data = map[[3]uint64][]byte{}
			}
			b := vx.FSReadFile(db.LTXPath(0, next, next))
			c.data[vxKey(0, next, next)] = b
			c.files = append(c.files, &ltx.FileInfo{Level: 0, MinTXID: next, MaxTXID: next, Size: int64(len(b))})
			db.Replica.SetPos(ltx.Pos{TXID: next})
		}
		defer func() { vxLockSyncHook = nil }()
	}
	var err error
	entry := vx.Choose("entry", 0, 2)
	switch entry {
	case 0:
		err = db.SyncAndWait(ctx)
	case 1:
		_, err = store.SyncDB(ctx, path, true)
	case 2:
		err = db.Close(ctx)
	}
	vx.ObserveBool("ok", err == nil)
	if err != nil {
		return // loud
	}
	vx.Assert("acknowledged-means-whole-wal-copied", g.pending == 0)
	max := ltx.TXID(0)
	for t := ltx.TXID(1); t <= 8; t++ {
		if vx.FSExists(db.LTXPath(0, t, t)) {
			max = t
		}
	}
	stored := true
	for t := ltx.TXID(1); t <= max; t++ {
		b := c.data[vxKey(0, t, t)]
		stored = stored && b != nil && string(b) == string(vx.FSReadFile(db.LTXPath(0, t, t)))
	}
	vx.Assert("acknowledged-means-every-local-file-is-stored", stored && int(max) == n+g.published)
}
