package litestream

// C04 harness: the continuity decision. verifyWithExecutor (with lastPageMatch,
// detectFullCheckpoint, readWALHeader, readWALFileAt, the WAL reader) runs on a
// WAL image generated from an abstract history of what happened to the WAL since
// the last replicated position (E-WAL, DESIGN.md D.4), and on the real last
// level-0 file. The assertion is stated on ground truth: "incremental" is allowed
// only when no committed frame exists that is neither replicated nor about to be
// read.

import (
	"context"
	"database/sql"
	"os"

	"github.com/benbjohnson/litestream/internal/vx"
	"github.com/superfly/ltx"
)

type vxHistory struct {
	c, u   int // frames of generation 0 replicated / appended afterwards without being seen
	r      int // later generations (restarts of the WAL)
	n      [3]int
	trunc  bool // the file was cut down to the newest generation (TRUNCATE checkpoint, size limit, deletion)
	gens   []vxGen
	lost   bool // ground truth: some committed frame is in no level-0 file and not in the range a resume would read
	resume int64
	s1, s2 uint32 // salts a sound resume must use
}

const vxFS = int64(WALFrameHeaderSize + vxPageSize)

// vxGenHistory enumerates histories within the bound; maxR limits the restarts.
func vxGenHistory(maxR int) *vxHistory {
	h := &vxHistory{}
	h.c = vx.Choose("replicated", 1, 2)
	h.u = vx.Choose("unseen", 0, 2)
	h.r = vx.Choose("restarts", 0, maxR)
	g0 := vxGen{salt1: 100, salt2: uint32(vx.Range("salt0", 0, 1<<31-1))}
	// the unseen frames are one or two single-frame transactions, or one two-frame
	// transaction (only its last frame carries the commit mark)
	multi := h.u == 2 && vx.Fault("twoFrameTx")
	for i := 0; i < h.c+h.u; i++ {
		commit := uint32(3)
		if multi && i == h.c {
			commit = 0
		}
		g0.frames = append(g0.frames, vxFrame{pgno: uint32(vx.Range("pg", 1, 3)), commit: commit, tag: vx.U64("tag")})
	}
	h.gens = []vxGen{g0}
	h.n[0] = h.c + h.u
	for g := 1; g <= h.r; g++ {
		// a restart increments salt1 and draws a random salt2
		gen := vxGen{salt1: 100 + uint32(g), salt2: uint32(vx.Range("saltN", 0, 1<<31-1))}
		h.n[g] = vx.Choose("frames", 1, 2)
		for i := 0; i < h.n[g]; i++ {
			gen.frames = append(gen.frames, vxFrame{pgno: uint32(vx.Range("pg", 1, 3)), commit: 3, tag: vx.U64("tag")})
		}
		h.gens = append(h.gens, gen)
	}
	if h.r >= 1 {
		h.trunc = vx.Fault("truncated")
	}
	// ground truth
	h.lost = (h.u > 0 && h.r >= 1) || h.r >= 2
	switch {
	case h.r == 0:
		h.resume, h.s1, h.s2 = WALHeaderSize+int64(h.c)*vxFS, g0.salt1, g0.salt2
	case h.r == 1 && h.u == 0:
		h.resume, h.s1, h.s2 = WALHeaderSize, h.gens[1].salt1, h.gens[1].salt2
	}
	return h
}

// states returns the page images (pages 1..3) of: the database file (E-WAL: every
// generation but the newest was fully backfilled before the WAL was restarted),
// the replica at the replicated position, and the source as the application sees
// it (database file + the newest generation, every frame a committed transaction).
func (h *vxHistory) states() (dbFile, replicated, source [3]uint64) {
	base := [3]uint64{1, 2, 3}
	dbFile = base
	for g := 0; g < len(h.gens)-1; g++ {
		vxApplyFrames(&dbFile, h.gens[g].frames)
	}
	replicated = base
	vxApplyFrames(&replicated, h.gens[0].frames[:h.c])
	source = dbFile
	vxApplyFrames(&source, h.gens[len(h.gens)-1].frames)
	return
}

func (h *vxHistory) walImage() []byte {
	if h.trunc {
		return vxWALImageOf(vxPageSize, h.gens[len(h.gens)-1:])
	}
	return vxWALImageOf(vxPageSize, h.gens)
}

// vxContinuityDB writes the files: database, WAL, and level-0 files 1..pos whose
// last one records the replicated WAL range [32, 32+c*fs) of generation 0 and
// holds the newest image of every page in that range.
func vxContinuityDB(h *vxHistory) (*DB, ltx.TXID) {
	dir := vx.TempDir()
	path := dir + "/app.db"
	dbFile, _, _ := h.states()
	vx.FSWriteFile(path, vxDBFile(vxPageSize, dbFile[:]))
	vx.FSWriteFile(path+"-wal", h.walImage())
	db := NewDB(path)
	db.pageSize = vxPageSize
	pos := ltx.TXID(2)
	first := &vxLTX{level: 0, min: 1, max: 1, commit: 3, ts: 1000, pages: []vxPg{{1, 1}, {2, 2}, {3, 3}}}
	vx.FSWriteFile(db.LTXPath(0, 1, 1), vxEncodeLTXWAL(first, WALHeaderSize, 0, 100, h.gens[0].salt2))
	// pages of the replicated range, newest version per page, ascending
	last := &vxLTX{level: 0, min: pos, max: pos, commit: 3, ts: 2000}
	g0 := h.gens[0]
	for p := uint32(1); p <= 3; p++ {
		var tag uint64
		in := false
		for i := 0; i < h.c; i++ {
			hit := g0.frames[i].pgno == p
			tag = vx.IteU64(hit, g0.frames[i].tag, tag)
			in = vx.Or(in, hit)
		}
		// which pages the range touches decides the file's page list: case split
		if vx.Concrete(vx.IteU64(in, 1, 0)) == 1 {
			last.pages = append(last.pages, vxPg{p, tag})
		}
	}
	vx.FSWriteFile(db.LTXPath(0, pos, pos), vxEncodeLTXWAL(last, WALHeaderSize, int64(h.c)*vxFS, g0.salt1, g0.salt2))
	return db, pos
}

func vxCheckContinuity(h *vxHistory, info syncInfo, err error) {
	if err != nil {
		// an error stops replication loudly; nothing is acknowledged
		return
	}
	if info.snapshotting {
		vx.ObserveBool("snapshot", true)
		return
	}
	vx.Assert("incremental-only-when-nothing-was-missed", !h.lost)
	if h.lost {
		return
	}
	vx.Assert("incremental-resumes-where-replication-stopped", vx.And(info.offset == h.resume, vx.And(info.salt1 == h.s1, info.salt2 == h.s2)))
}

// vxCheckRound runs the real DB.sync with verify's answer and holds the file it
// publishes against ground truth: whatever verify decided, the replica after this
// round (the replicated state overlaid with the new file; a snapshot must hold
// every page) is the source database. A second, idle round (real verify + sync on
// what the first one left behind) must not disturb that.
func vxCheckRound(h *vxHistory, db *DB, pos ltx.TXID, exec *syncExecutor, info syncInfo) {
	if !info.snapshotting && h.lost {
		return // already reported by the continuity assertion
	}
	f, err := os.Open(db.Path())
	if err != nil {
		panic(err)
	}
	db.f = f
	defer f.Close()
	ctx := context.Background()
	res, err := db.syncReal(ctx, false, exec, info, 0)
	if err != nil {
		return // loud failure: nothing is acknowledged
	}
	_, replica, source := h.states()
	overlay := func(txid ltx.TXID, full bool) bool {
		got, derr := vxDecodeLTX(vx.FSReadFile(db.LTXPath(0, txid, txid)))
		vx.Assert("round-file-decodes", derr == nil)
		if derr != nil {
			return false
		}
		if full {
			vx.Assert("snapshot-holds-every-page", len(got.pages) == 3)
		}
		for _, p := range got.pages {
			for i := uint32(0); i < 3; i++ {
				replica[i] = vx.IteU64(p.pgno == i+1, p.tag, replica[i])
			}
		}
		return true
	}
	next := pos
	if res.synced {
		next = pos + 1
		if !overlay(next, info.snapshotting) {
			return
		}
	}
	for i := 0; i < 3; i++ {
		vx.Assert("next-sync-brings-replica-to-source", replica[i] == source[i])
	}
	if vx.Param("E2E", 0) == 1 {
		vxCheckEndToEnd(db, next, source)
	}
	if vx.Param("ROUND2", 1) == 0 {
		return
	}
	// idle second round
	db.applySyncResult(&exec.state, res)
	exec.pos = ltx.Pos{TXID: next}
	res2, err := db.verifyAndSyncWithExecutorReal(ctx, false, exec, 0)
	if err != nil {
		return
	}
	if res2.synced {
		if !overlay(next+1, false) {
			return
		}
	}
	for i := 0; i < 3; i++ {
		vx.Assert("idle-round-keeps-replica-at-source", replica[i] == source[i])
	}
}

// vxCheckEndToEnd carries the same symbolic history through the rest of the chain:
// the real Replica.syncOnce uploads what the round published to a replica that
// already holds the earlier files, and the real Replica.Restore (restore plan, ltx
// compaction, decode, rename) rebuilds a database from the replica alone; its
// pages must be the source's.
func vxCheckEndToEnd(db *DB, last ltx.TXID, source [3]uint64) {
	c := &vxStoreClient{}
	c.data = map[[3]uint64][]byte{}
	for t := ltx.TXID(1); t < last; t++ {
		b := vx.FSReadFile(db.LTXPath(0, t, t))
		c.data[vxKey(0, t, t)] = b
		c.files = append(c.files, &ltx.FileInfo{Level: 0, MinTXID: t, MaxTXID: t, Size: int64(len(b))})
	}
	r := NewReplicaWithClient(db, c)
	db.Replica = r
	ctx := context.Background()
	res, err := r.syncOnce(ctx, 0)
	if err != nil {
		return // loud
	}
	vx.Assert("upload-acknowledged-means-stored", !res.limited && c.data[vxKey(0, last, last)] != nil)
	out := vx.TempDir() + "/restored/db"
	rerr := r.Restore(ctx, RestoreOptions{OutputPath: out, IntegrityCheck: IntegrityCheckNone})
	vx.Assert("restore-from-the-replica-succeeds", rerr == nil)
	if rerr != nil {
		return
	}
	vx.Assert("restored-database-equals-source", vxDBEquals(out, source[:]))
}

// VxC04Fresh: a new process (no remembered sync state) after arbitrary activity.
func VxC04Fresh() {
	h := vxGenHistory(2)
	db, pos := vxContinuityDB(h)
	// the session state is whatever the real start-up leaves behind: DB.init over the
	// SQL stub (read lock taken, page size read), no replica attached
	e := vxNewSQLEnv(false)
	e.pageSize = vxPageSize
	defer func() { vxSQLHandler = nil }()
	if err := db.init(context.Background()); err != nil {
		panic(err)
	}
	exec := &syncExecutor{state: db.syncState, pos: ltx.Pos{TXID: pos}}
	if vx.Param("VS", 0) == 1 {
		// the round as syncLocked runs it: verify and copy in one call of the real
		// verifyAndSyncWithExecutor (its own bookkeeping included); judged on content only
		vxCheckWholeRound(h, db, pos, exec)
		return
	}
	info, err := db.verifyWithExecutor(context.Background(), exec)
	vxCheckContinuity(h, info, err)
	if err == nil && vx.Param("ROUND", 1) == 1 {
		vxCheckRound(h, db, pos, exec, info)
	}
}

// vxCheckWholeRound: one real verifyAndSyncWithExecutor round; whatever it decided
// and published, the replica afterwards is the source.
func vxCheckWholeRound(h *vxHistory, db *DB, pos ltx.TXID, exec *syncExecutor) {
	if db.f == nil {
		f, err := os.Open(db.Path())
		if err != nil {
			panic(err)
		}
		db.f = f
		defer f.Close()
	}
	res, err := db.verifyAndSyncWithExecutorReal(context.Background(), false, exec, 0)
	if err != nil {
		return // loud
	}
	_, replica, source := h.states()
	if res.synced {
		got, derr := vxDecodeLTX(vx.FSReadFile(db.LTXPath(0, pos+1, pos+1)))
		vx.Assert("round-file-decodes", derr == nil)
		if derr != nil {
			return
		}
		for _, p := range got.pages {
			for i := uint32(0); i < 3; i++ {
				replica[i] = vx.IteU64(p.pgno == i+1, p.tag, replica[i])
			}
		}
	}
	for i := 0; i < 3; i++ {
		vx.Assert("next-sync-brings-replica-to-source", replica[i] == source[i])
	}
}

// VxC04SameProcess: the process that synced last is still running (it held its
// read transaction throughout): the WAL can have been restarted at most once.
func VxC04SameProcess() {
	h := vxGenHistory(1)
	db, pos := vxContinuityDB(h)
	// a running session holds its long-running read transaction
	db.rtx = new(sql.Tx)
	exec := &syncExecutor{pos: ltx.Pos{TXID: pos}}
	exec.state.lastSyncedWALOffset = WALHeaderSize + int64(h.c)*vxFS
	// whether the last sync ended exactly at the end of the WAL file
	exec.state.syncedToWALEnd = vx.Fault("syncedToEnd")
	// E-WAL, observed clause: the WAL can be restarted or truncated under a running
	// litestream only while litestream sits on read mark 0, i.e. on a fully
	// checkpointed WAL; there the next writer restarts the WAL instead of appending.
	// So frames appended after a sync that ended exactly at the end of the file are
	// never followed by a restart within the same session: unseen frames together
	// with a restart mean the earlier sync stopped short of the end (chunked catch-up).
	vx.Assume(!(exec.state.syncedToWALEnd && h.u > 0 && h.r >= 1))
	info, err := db.verifyWithExecutor(context.Background(), exec)
	vxCheckContinuity(h, info, err)
	if err == nil && vx.Param("ROUND", 1) == 1 {
		vxCheckRound(h, db, pos, exec, info)
	}
}

// VxC04Reset: the local state directory is reset (auto-recovery at run time, or
// offline followed by a restart): replication must not report success again until
// everything the database holds is on the replica, and what it uploads next must
// lie above everything already there.
func VxC04Reset() {
	dir := vx.TempDir()
	db := NewDB(dir + "/app.db")
	vx.FSWriteFile(dir+"/app.db", []byte("SQLite format 3\x00"))
	vx.FSWriteFile(dir+"/app.db-wal", make([]byte, WALHeaderSize))
	vxNewSQLEnv(false)
	defer func() { vxSQLHandler = nil }()
	c := &vxFaultClient{}
	n := vx.Choose("remote", 1, 3)
	var local []*vxLTX
	for t := 1; t <= n; t++ {
		f := &vxLTX{level: 0, min: ltx.TXID(t), max: ltx.TXID(t), commit: 2, ts: int64(1000 + t), pages: []vxPg{{1, uint64(t)}}}
		if t == 1 {
			f.pages = []vxPg{{1, 1}, {2, 1}}
		}
		local = append(local, f)
		vx.FSWriteFile(db.LTXPath(0, f.min, f.max), vxEncodeLTX(f))
		c.put(f)
	}
	r := NewReplicaWithClient(db, c)
	db.Replica = r
	if vx.Fault("posCached") {
		r.SetPos(ltx.Pos{TXID: ltx.TXID(n)})
	}
	ctx := context.Background()
	// the process has been running: the database is initialised (read lock held)
	db.Replica.MonitorEnabled = false
	db.MonitorInterval = 0
	if err := db.init(ctx); err != nil {
		panic(err)
	}
	// the replica may fail transiently while the reset fetches its baseline; the
	// monitor logs a failed reset and carries on, so does the harness
	c.faulty = vx.Fault("replicaFlakyDuringReset")
	rerr := db.ResetLocalState(ctx)
	if !c.faulty {
		vx.Assert("reset-succeeds", rerr == nil)
	}
	c.faulty = false
	// the next database sync starts over: a snapshot at whatever TXID the real
	// executor set-up (init on first use, then the position) says comes next
	db.Replica.MonitorEnabled = false
	db.MonitorInterval = 0
	exec, eerr := db.newSyncExecutor(ctx)
	if eerr != nil || exec == nil {
		return // loud: the round fails, nothing is acknowledged
	}
	pos, perr := db.Pos()
	vx.Assert("position-after-reset-readable", perr == nil && pos.TXID == exec.pos.TXID)
	next := pos.TXID + 1
	snap := &vxLTX{level: 0, min: next, max: next, commit: 2, ts: 5000, pages: []vxPg{{1, 77}, {2, 78}}}
	vx.FSWriteFile(db.LTXPath(0, next, next), vxEncodeLTX(snap))
	db.invalidatePosCache()
	res, err := r.syncOnce(ctx, 0)
	if err != nil {
		// loud failure: nothing is acknowledged
		return
	}
	vx.Assert("success-means-the-new-snapshot-is-stored", !res.limited && c.data[vxKey(0, next, next)] != nil)
	vx.Assert("new-snapshot-lies-above-the-old-chain", next > ltx.TXID(n))
	_ = local
}

// VxC04ResetContinuity: the local state directory is reset while the process keeps
// running (auto-recovery) after it had synced further than the replica holds. The
// real ResetLocalState fetches the replica's newest file as the new baseline; what
// the process remembered about the WAL (synced offset, "synced to the end") was
// measured against the files just thrown away. The next round runs through the
// real verify + sync with whatever state the real reset leaves behind: frames the
// replica never received ("unseen" here) must not be skipped, whatever happened
// to the WAL in between.
func VxC04ResetContinuity() {
	h := vxGenHistory(2)
	db, pos := vxContinuityDB(h)
	c := &vxStoreClient{}
	c.data = map[[3]uint64][]byte{}
	for _, t := range []ltx.TXID{1, pos} {
		b := vx.FSReadFile(db.LTXPath(0, t, t))
		c.data[vxKey(0, t, t)] = b
		c.files = append(c.files, &ltx.FileInfo{Level: 0, MinTXID: t, MaxTXID: t, Size: int64(len(b))})
	}
	// what was synced locally beyond the replica: one more level-0 file (its content
	// does not matter, the reset removes it)
	vx.FSWriteFile(db.LTXPath(0, pos+1, pos+1), vx.FSReadFile(db.LTXPath(0, pos, pos)))
	r := NewReplicaWithClient(db, c)
	db.Replica = r
	db.rtx = new(sql.Tx) // a running session holds its read transaction
	// the session's memory of the WAL before the reset: it had synced up to some
	// frame boundary (here: everything generation 0 held) and possibly to the very
	// end of the file
	db.syncState.lastSyncedWALOffset = WALHeaderSize + int64(h.c+h.u)*vxFS
	db.syncState.syncedToWALEnd = vx.Fault("syncedToEnd")
	ctx := context.Background()
	if err := db.ResetLocalState(ctx); err != nil {
		return // loud
	}
	p, err := db.Pos()
	if err != nil {
		return
	}
	vx.Assert("baseline-is-the-replica-position", p.TXID == pos)
	exec := &syncExecutor{state: db.syncState, pos: p}
	info, err := db.verifyWithExecutor(ctx, exec)
	vxCheckContinuity(h, info, err)
	if err == nil && vx.Param("ROUND", 1) == 1 {
		vxCheckRound(h, db, pos, exec, info)
	}
}

// VxC04Reopened: the same DB object was closed and opened again (stop/start over
// IPC) while the application kept working; the sync state is whatever the real
// Close and Open leave behind.
func VxC04Reopened() {
	h := vxGenHistory(2)
	db, pos := vxContinuityDB(h)
	// before the stop: a running instance that had synced to the end of the WAL
	vxNewSQLEnv(false)
	defer func() { vxSQLHandler = nil }()
	if err := db.init(context.Background()); err != nil {
		panic(err)
	}
	db.Replica = NewReplicaWithClient(db, &vxStoreClient{})
	db.Replica.MonitorEnabled = false
	db.MonitorInterval = 0
	db.ShutdownSyncTimeout = 0
	db.syncState.lastSyncedWALOffset = WALHeaderSize + int64(h.c)*vxFS
	db.syncState.syncedToWALEnd = true
	vxSyncStub = true
	cerr := db.Close(context.Background())
	vxSyncStub = false
	if cerr != nil {
		return
	}
	if err := db.Open(); err != nil {
		return
	}
	exec := &syncExecutor{state: db.syncState, pos: ltx.Pos{TXID: pos}}
	db.pageSize = vxPageSize
	info, err := db.verifyWithExecutor(context.Background(), exec)
	vxCheckContinuity(h, info, err)
}

// VxC04InitBehind: the local state directory was lost while the process was down;
// the replica holds 1..N. The real DB.init runs its database-behind-replica check
// against a replica whose calls may fail transiently. Whenever init reports
// success the local position is not below what the replica holds (the baseline
// was fetched), so the snapshot the next sync takes is numbered above everything
// already on the replica; a failing check fails init loudly (it is retried by the
// next sync) instead of letting replication start over at TXID 1.
func VxC04InitBehind() {
	dir := vx.TempDir()
	path := dir + "/app.db"
	vx.FSWriteFile(path, []byte("SQLite format 3\x00"))
	vx.FSWriteFile(path+"-wal", make([]byte, WALHeaderSize))
	vxNewSQLEnv(false)
	defer func() { vxSQLHandler = nil }()
	db := NewDB(path)
	c := &vxFaultClient{}
	n := vx.Choose("remote", 1, 3)
	for t := 1; t <= n; t++ {
		f := &vxLTX{level: 0, min: ltx.TXID(t), max: ltx.TXID(t), commit: 2, ts: int64(1000 + t), pages: []vxPg{{1, uint64(t)}}}
		if t == 1 {
			f.pages = []vxPg{{1, 1}, {2, 1}}
		}
		c.put(f)
	}
	db.Replica = NewReplicaWithClient(db, c)
	db.Replica.MonitorEnabled = false
	db.MonitorInterval = 0
	c.faulty = true
	err := db.init(context.Background())
	c.faulty = false
	vx.ObserveBool("init-ok", err == nil)
	if err != nil {
		return // loud: nothing is replicated until a later init gets through
	}
	pos, perr := db.Pos()
	vx.Assert("init-success-means-local-position-not-below-replica", perr == nil && pos.TXID >= ltx.TXID(n))
}
