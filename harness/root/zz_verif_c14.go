package litestream

// C14 harness: everything litestream sends to the source database. The SQL
// surface of db.go (init, ensureWALExists, bumpLitestreamSeq, acquireReadLock,
// releaseReadLock, checkpointWithExecutor, execCheckpoint, Close) runs over
// symsql with every statement allowed to fail; the WAL copying in between is cut
// (verifyAndSyncWithExecutor / sync stand-ins with arbitrary outcomes).

import (
	"context"
	"database/sql"
	"errors"
	"strings"

	"github.com/benbjohnson/litestream/internal/vx"
	"github.com/superfly/ltx"
)

// ---- cut points shared with other harnesses -------------------------------

var (
	vxSyncStub      bool // replace verifyAndSyncWithExecutor and sync by stand-ins
	vxSyncStubCalls int
	vxSQLHandler    vx.SQLHandler
	vxSQLFaults     bool
)

func vxSQLOpenDSN(driver, dsn string) (*sql.DB, error) {
	if vxSQLHandler == nil {
		return sql.Open(driver, dsn)
	}
	return vx.SQLOpenDSN(vxSQLHandler, dsn), nil
}

// vxLockExecHook, when set, runs once immediately before the next acquisition of
// the DB's executor semaphore: it stands for another operation (a sync round, a
// checkpoint) that held the executor and completed before this caller got it -
// one interleaving point of the real concurrency, at the place where the code
// itself serialises.
var vxLockExecHook func()

func (db *DB) lockExec(ctx context.Context) error {
	if h := vxLockExecHook; h != nil {
		vxLockExecHook = nil
		h()
	}
	return db.lockExecReal(ctx)
}

// vxLockSyncHook: the same for the replica's upload lock: another upload pass (the
// background monitor's) held the lock and finished before this caller got it.
var vxLockSyncHook func()

func (r *Replica) lockSync(ctx context.Context) error {
	if h := vxLockSyncHook; h != nil {
		vxLockSyncHook = nil
		h()
	}
	return r.lockSyncReal(ctx)
}

func (db *DB) setPersistWAL(ctx context.Context) error {
	if vxSQLHandler == nil {
		return db.setPersistWALReal(ctx)
	}
	if vxSQLFaults && vx.Fault("sqlfault:persistWAL") {
		return errors.New("vx: FileControlPersistWAL failed")
	}
	return nil
}

// vxGhostWAL, when set, turns the WAL-copy stand-in into a contract model of one
// verify+sync round (decided for the real code by VxC01Sync, VxC09Budget and the
// C04 harnesses): the WAL holds `pending` committed chunks not yet copied; an
// unbounded round (maxSyncWALBytes == 0) copies all of them, a bounded one copies
// one chunk and reports `limited` while more remain; every copying round
// publishes one level-0 file numbered pos+1.
type vxGhostWALState struct {
	pending   int
	rounds    int
	published int // level-0 files written by copying rounds
	maxSeen   int64
	lastOpen  bool // the last round stopped short of the end of the WAL
}

var vxGhostWAL *vxGhostWALState

// vxGhostScript, when set, scripts the WAL copy round by round (sizes in bytes of
// the live WAL generation before and after the round, and whether anything was
// copied); used by harnesses that are about what syncLocked does around the copy.
type vxGhostRound struct {
	orig, size int64
	synced     bool
	limited    bool   // the round was cut by the byte budget and did not reach the WAL end
	before     func() // what happens while the round runs (the application appends to the WAL)
}

var vxGhostScript []vxGhostRound

// vxInner, when set, cuts one level deeper: verifyAndSyncWithExecutor is the real
// code (its WAL-size bookkeeping included), verifyWithExecutor answers with
// vxInner.info and DB.sync with vxInner.res.
type vxInnerScript struct {
	info syncInfo
	res  syncResult
}

var vxInner *vxInnerScript

func (db *DB) verifyWithExecutor(ctx context.Context, exec *syncExecutor) (syncInfo, error) {
	if vxInner != nil {
		return vxInner.info, nil
	}
	return db.verifyWithExecutorReal(ctx, exec)
}

func (db *DB) verifyAndSyncWithExecutor(ctx context.Context, checkpointing bool, exec *syncExecutor, maxSyncWALBytes int64) (syncResult, error) {
	if vxInner != nil {
		return db.verifyAndSyncWithExecutorReal(ctx, checkpointing, exec, maxSyncWALBytes)
	}
	if len(vxGhostScript) > 0 {
		r := vxGhostScript[0]
		vxGhostScript = vxGhostScript[1:]
		if r.before != nil {
			r.before()
		}
		return syncResult{origWALSize: r.orig, newWALSize: r.size, synced: r.synced, limited: r.limited, syncedToWALEnd: !r.limited}, nil
	}
	if g := vxGhostWAL; g != nil {
		g.rounds++
		g.maxSeen = maxSyncWALBytes
		off := exec.state.lastSyncedWALOffset
		if off == 0 {
			off = WALHeaderSize
		}
		if g.pending == 0 {
			g.lastOpen = false
			return syncResult{origWALSize: off, newWALSize: off, syncedToWALEnd: true}, nil
		}
		n := g.pending
		if maxSyncWALBytes > 0 {
			n = 1
		}
		g.pending -= n
		g.published++
		g.lastOpen = g.pending > 0
		txid := exec.pos.TXID + 1
		f := &vxLTX{level: 0, min: txid, max: txid, commit: 2, ts: int64(1000 + txid), pages: []vxPg{{1, uint64(txid)}}}
		if txid == 1 {
			f.pages = []vxPg{{1, 1}, {2, 1}}
		}
		b := vxEncodeLTX(f)
		vx.FSWriteFile(db.LTXPath(0, txid, txid), b)
		pos := ltx.Pos{TXID: txid}
		off += int64(n) * int64(WALFrameHeaderSize+db.pageSize)
		return syncResult{origWALSize: off, newWALSize: off, synced: true, limited: g.pending > 0, syncedToWALEnd: g.pending == 0, pos: &pos,
			l0FileInfo: &ltx.FileInfo{Level: 0, MinTXID: txid, MaxTXID: txid, Size: int64(len(b))}}, nil
	}
	if !vxSyncStub {
		return db.verifyAndSyncWithExecutorReal(ctx, checkpointing, exec, maxSyncWALBytes)
	}
	vxSyncStubCalls++
	if vx.Fault("sqlfault:copyFails") {
		return syncResult{}, errors.New("vx: wal copy failed")
	}
	// an arbitrary successful copy: the synced offset is some frame boundary
	frames := int64(vx.Range("copiedFrames", 0, 3))
	vxProtoLog = append(vxProtoLog, vxProtoEvent{kind: "copy", frames: frames, lockHeld: vxWriteLockHeld()})
	off := WALHeaderSize + frames*int64(WALFrameHeaderSize+db.pageSize)
	return syncResult{origWALSize: off, newWALSize: off, synced: vx.Bool("copiedSomething"), syncedToWALEnd: true}, nil
}

func (db *DB) sync(ctx context.Context, checkpointing bool, exec *syncExecutor, info syncInfo, maxSyncWALBytes int64) (syncResult, error) {
	if vxInner != nil {
		return vxInner.res, nil
	}
	if !vxSyncStub {
		return db.syncReal(ctx, checkpointing, exec, info, maxSyncWALBytes)
	}
	vxSyncStubCalls++
	if vx.Fault("sqlfault:snapshotFails") {
		return syncResult{}, errors.New("vx: boundary snapshot failed")
	}
	vxProtoLog = append(vxProtoLog, vxProtoEvent{kind: "snapshot", lockHeld: vxWriteLockHeld()})
	off := int64(WALHeaderSize + WALFrameHeaderSize + db.pageSize)
	return syncResult{origWALSize: off, newWALSize: off, synced: true, syncedToWALEnd: true}, nil
}

// ---- the checkpoint protocol as a sequence of observable steps ---------------

// vxProtoEvent is one step of litestream's checkpoint protocol as the
// environment sees it: a WAL copy, a boundary snapshot, or the checkpoint PRAGMA,
// each with whether litestream held the database's write lock at that moment (a
// transaction that executed the _litestream_lock insert and is still open).
type vxProtoEvent struct {
	kind     string // "copy", "snapshot", "ckpt"
	frames   int64  // copy: frames the copy had reached
	lockHeld bool
}

var (
	vxProtoLog  []vxProtoEvent
	vxSQLEnvCur *vxSQLEnv
)

func vxWriteLockHeld() bool {
	e := vxSQLEnvCur
	if e == nil {
		return false
	}
	for id := range e.lockTx {
		if e.open[id] {
			return true
		}
	}
	return false
}

// ---- the SQL environment ---------------------------------------------------

type vxSQLEnv struct {
	log            []vx.SQLEvent
	open           map[int]bool // transactions begun and not ended
	lockTx         map[int]bool // transactions that executed the lock-table insert
	committed      []int
	lockAutocommit int // lock-table inserts executed outside any transaction
	badSQL         []string
	closed         bool
	faults         bool
	pageSize       int64
	onCkpt         func(mode string) // environment effect of a checkpoint (WAL restart etc.)
	ckptFrames     int64
	// lock contention: each pooled connection waits for a lock as long as its own
	// busy timeout says (set by the DSN it was opened with, or by a PRAGMA executed
	// on that very connection); the application holds the write lock for appLockMs
	connTimeout map[int]int64
	appLockMs   int64
	busySeen    int
}

// vxBusyTimeoutOf reads the busy timeout a data source name configures (modernc
// sqlite: _pragma=busy_timeout(N)); 0 when it configures none.
func vxBusyTimeoutOf(dsn string) int64 {
	const key = "busy_timeout("
	i := strings.Index(dsn, key)
	if i < 0 {
		return 0
	}
	var n int64
	for _, ch := range dsn[i+len(key):] {
		if ch < '0' || ch > '9' {
			break
		}
		n = n*10 + int64(ch-'0')
	}
	return n
}

// vxNeedsWriteLock: statements that take SQLite's write lock.
func vxNeedsWriteLock(q string) bool {
	u := strings.ToUpper(strings.TrimSpace(q))
	return strings.HasPrefix(u, "INSERT ") || strings.HasPrefix(u, "CREATE ") || strings.HasPrefix(u, "UPDATE ") || strings.HasPrefix(u, "DELETE ")
}

var vxSQLWhitelist = []string{
	`PRAGMA journal_mode = wal;`,
	`CREATE TABLE IF NOT EXISTS _litestream_seq (id INTEGER PRIMARY KEY, seq INTEGER);`,
	`CREATE TABLE IF NOT EXISTS _litestream_lock (id INTEGER);`,
	`INSERT INTO _litestream_seq (id, seq) VALUES (1, 1) ON CONFLICT (id) DO UPDATE SET seq = seq + 1`,
	`SELECT COUNT(1) FROM _litestream_seq;`,
	`PRAGMA page_size;`,
	`INSERT INTO _litestream_lock (id) VALUES (1);`,
	`PRAGMA wal_checkpoint(PASSIVE);`,
	`PRAGMA wal_checkpoint(FULL);`,
	`PRAGMA wal_checkpoint(RESTART);`,
	`PRAGMA wal_checkpoint(TRUNCATE);`,
}

func (e *vxSQLEnv) handle(ev vx.SQLEvent) vx.SQLResult {
	e.log = append(e.log, ev)
	switch ev.Kind {
	case "begin":
		if e.faults && vx.Fault("sqlfault:begin") {
			return vx.SQLResult{Err: "database is locked (SQLITE_BUSY)"}
		}
		e.open[ev.Tx] = true
		return vx.SQLResult{}
	case "commit":
		delete(e.open, ev.Tx)
		e.committed = append(e.committed, ev.Tx)
		return vx.SQLResult{}
	case "rollback":
		delete(e.open, ev.Tx)
		if e.faults && vx.Fault("sqlfault:rollback") {
			return vx.SQLResult{Err: "vx: rollback failed"}
		}
		return vx.SQLResult{}
	case "close":
		e.closed = true
		return vx.SQLResult{}
	case "open":
		if e.connTimeout == nil {
			e.connTimeout = map[int]int64{}
		}
		e.connTimeout[ev.Conn] = vxBusyTimeoutOf(ev.SQL)
		return vx.SQLResult{}
	}
	if u := strings.ToUpper(ev.SQL); strings.HasPrefix(u, "PRAGMA BUSY_TIMEOUT") && strings.Contains(u, "=") {
		// a connection-local setting: it configures the connection it runs on
		var n int64
		for _, ch := range u[strings.Index(u, "=")+1:] {
			if ch >= '0' && ch <= '9' {
				n = n*10 + int64(ch-'0')
			}
		}
		if e.connTimeout == nil {
			e.connTimeout = map[int]int64{}
		}
		e.connTimeout[ev.Conn] = n
		return vx.SQLResult{}
	}
	if e.appLockMs > 0 && vxNeedsWriteLock(ev.SQL) {
		if e.connTimeout[ev.Conn] < e.appLockMs {
			// the statement waited as long as its connection allows, then gave up
			e.busySeen++
			e.appLockMs -= e.connTimeout[ev.Conn]
			return vx.SQLResult{Err: "database is locked (5) (SQLITE_BUSY)"}
		}
		e.appLockMs = 0 // waited; the application's transaction has ended
	}
	ok := false
	for _, w := range vxSQLWhitelist {
		if ev.SQL == w {
			ok = true
		}
	}
	// statements outside the list are a violation only if they can change what the
	// application reads; a new read-only statement (SELECT, a PRAGMA query) is not
	if !ok && vxSQLCanWrite(ev.SQL) {
		e.badSQL = append(e.badSQL, ev.SQL)
	}
	if e.faults && vx.Fault("sqlfault:stmt") {
		return vx.SQLResult{Err: "database is locked (SQLITE_BUSY)"}
	}
	switch {
	case ev.SQL == `INSERT INTO _litestream_lock (id) VALUES (1);`:
		if ev.Tx == 0 {
			// outside a transaction the statement commits by itself: a permanent row
			e.lockAutocommit++
		}
		e.lockTx[ev.Tx] = true
	case ev.SQL == `PRAGMA journal_mode = wal;`:
		return vx.SQLResult{Str: "wal", IsStr: true}
	case ev.SQL == `PRAGMA page_size;`:
		return vx.SQLResult{Ints: []int64{e.pageSize}}
	case strings.HasPrefix(ev.SQL, `PRAGMA wal_checkpoint(`):
		vxProtoLog = append(vxProtoLog, vxProtoEvent{kind: "ckpt", lockHeld: vxWriteLockHeld()})
		if e.onCkpt != nil {
			e.onCkpt(strings.TrimSuffix(strings.TrimPrefix(ev.SQL, `PRAGMA wal_checkpoint(`), `);`))
		}
		return vx.SQLResult{Ints: []int64{0, e.ckptFrames, e.ckptFrames}}
	}
	return vx.SQLResult{}
}

// vxSQLCanWrite: data or schema statements, PRAGMAs that set something, and
// anything the classifier does not recognise.
func vxSQLCanWrite(q string) bool {
	u := strings.ToUpper(strings.TrimSpace(q))
	for _, p := range []string{"SELECT ", "EXPLAIN ", "VALUES "} {
		if strings.HasPrefix(u, p) {
			return false
		}
	}
	if strings.HasPrefix(u, "PRAGMA ") {
		// settings of the connection itself change nothing another connection can read
		for _, local := range []string{"BUSY_TIMEOUT", "CACHE_SIZE", "TEMP_STORE", "MMAP_SIZE", "QUERY_ONLY", "READ_UNCOMMITTED", "FOREIGN_KEYS", "SYNCHRONOUS", "WAL_AUTOCHECKPOINT", "CACHE_SPILL", "ANALYSIS_LIMIT"} {
			if strings.HasPrefix(strings.TrimSpace(u[len("PRAGMA "):]), local) {
				return false
			}
		}
		return strings.ContainsAny(u, "=(")
	}
	return true
}

func vxNewSQLEnv(faults bool) *vxSQLEnv {
	e := &vxSQLEnv{open: map[int]bool{}, lockTx: map[int]bool{}, faults: faults, pageSize: 4096}
	vxSQLHandler = e.handle
	vxSQLFaults = faults
	vxSQLEnvCur = e
	vxProtoLog = nil
	return e
}

// checks that hold after every entry point
func (e *vxSQLEnv) check(db *DB) {
	vx.Assert("only-whitelisted-sql", len(e.badSQL) == 0)
	vx.Assert("nothing-ever-committed", len(e.committed) == 0 && e.lockAutocommit == 0)
	for id := range e.lockTx {
		vx.Assert("lock-insert-transaction-rolled-back", !e.open[id])
	}
	// the only transaction that may stay open is the long-running read transaction
	n := 0
	for range e.open {
		n++
	}
	held := 0
	if db.rtx != nil {
		held = 1
	}
	vx.Assert("no-stray-open-transaction", n == held)
}

// VxC14Init: DB.init with every statement allowed to fail.
func VxC14Init() {
	dir := vx.TempDir()
	path := dir + "/app.db"
	vx.FSWriteFile(path, []byte("SQLite format 3\x00"))
	vx.FSWriteFile(path+"-wal", make([]byte, WALHeaderSize))
	e := vxNewSQLEnv(true)
	defer func() { vxSQLHandler = nil }()
	db := NewDB(path)
	before := vx.FSReadFile(path)
	err := db.init(context.Background())
	e.check(db)
	vx.Assert("database-file-never-written", string(vx.FSReadFile(path)) == string(before) && len(vx.FSReadFile(path+"-wal")) == WALHeaderSize)
	if err != nil {
		// (Observation, not asserted: when setPersistWAL fails init returns before its
		// cleanup is armed and leaves db.db set, so the next init believes it is done.)
		vx.Assert("failed-init-holds-no-read-lock", db.rtx == nil)
		return
	}
	vx.Assert("init-holds-read-lock", db.rtx != nil && db.pageSize == 4096)
}

// VxC14Checkpoint: the real checkpointWithExecutor in every mode, every SQL call
// allowed to fail, WAL copying cut.
func VxC14Checkpoint() {
	dir := vx.TempDir()
	path := dir + "/app.db"
	vx.FSWriteFile(path, []byte("SQLite format 3\x00"))
	hdr := make([]byte, WALHeaderSize)
	vx.FSWriteFile(path+"-wal", hdr)
	e := vxNewSQLEnv(false)
	defer func() { vxSQLHandler = nil }()
	db := NewDB(path)
	if err := db.init(context.Background()); err != nil {
		panic(err)
	}
	vx.FSMkdirAll(db.LTXLevelDir(0))
	e.faults = true
	modes := [4]string{CheckpointModePassive, CheckpointModeFull, CheckpointModeRestart, CheckpointModeTruncate}
	mode := modes[vx.Choose("mode", 0, 3)]
	// the checkpoint may or may not restart the WAL (seen as a changed header), and
	// reports some frame count
	e.ckptFrames = int64(vx.Range("reportedFrames", 0, 4))
	restart := vx.Fault("walRestarts")
	e.onCkpt = func(m string) {
		if restart {
			h2 := make([]byte, WALHeaderSize)
			h2[16] = 1
			vx.FSWriteFile(path+"-wal", h2)
		}
	}
	vxSyncStub, vxSyncStubCalls = true, 0
	defer func() { vxSyncStub = false }()
	exec := &syncExecutor{}
	// the checkpoint runs inside a request (a `sync -wait` call, a SyncAndWait with a
	// deadline) whose context ends when the request is answered; the long-running
	// read transaction it re-acquires must outlive that request
	ctx, endRequest := context.WithCancel(context.Background())
	restarted, err := db.checkpointWithExecutorReal(ctx, mode, exec)
	endRequest()
	vx.Settle()
	e.check(db)
	vx.Assert("checkpoint-lock-released", db.chkMu.TryLock())
	db.chkMu.Unlock()
	if err == nil {
		vx.Assert("read-lock-held-again", db.rtx != nil)
		vx.Assert("restart-reported-iff-header-changed", restarted == restart)
	}
	// The protocol that keeps every commit in some LTX file (C01/C02). A PASSIVE
	// checkpoint may backfill and - with the following write - restart the WAL;
	// whatever the application committed before it must have been copied: the
	// PRAGMA runs while litestream holds the write lock, after a copy made under
	// that same lock (the sealing copy).
	sealed := false
	for _, ev := range vxProtoLog {
		if ev.kind == "copy" && ev.lockHeld {
			sealed = true
		}
		if ev.kind == "ckpt" && mode == CheckpointModePassive {
			vx.Assert("passive-checkpoint-runs-under-the-write-lock-after-a-sealing-copy", ev.lockHeld && sealed)
		}
	}
	// The blocking modes cannot be sealed that way; when the WAL was restarted and
	// commits may have landed between the last copy and the checkpoint (always
	// possible for TRUNCATE, for FULL/RESTART when the checkpoint reports more
	// frames than were copied) a boundary snapshot is taken under the write lock.
	if err == nil && restarted && mode != CheckpointModePassive {
		var copied int64
		seenCkpt := false
		snapUnderLock := false
		for _, ev := range vxProtoLog {
			if ev.kind == "copy" && !seenCkpt {
				copied = ev.frames
			}
			if ev.kind == "ckpt" {
				seenCkpt = true
			}
			if ev.kind == "snapshot" && seenCkpt && ev.lockHeld {
				snapUnderLock = true
			}
		}
		if mode == CheckpointModeTruncate || e.ckptFrames > copied {
			vx.Assert("unsealed-checkpoint-is-followed-by-a-boundary-snapshot-under-the-write-lock", snapUnderLock)
		}
	}
	// A TRUNCATE checkpoint (the other blocking modes leave the old frames in the file,
	// where verify finds them) that did run but whose follow-up failed (the bookkeeping
	// write was refused, the boundary snapshot could not be written) has reset the WAL
	// after a copy that was not sealed: whatever the application committed in between
	// is in the database file only. The next round must not take the shorter WAL for
	// the aftermath of a completed checkpoint of litestream's own: it re-snapshots.
	// (only when nothing was copied after the checkpoint ran: the last recorded step is the PRAGMA)
	ckptRan := len(vxProtoLog) > 0 && vxProtoLog[len(vxProtoLog)-1].kind == "ckpt"
	if err != nil && ckptRan && restart && mode == CheckpointModeTruncate && exec.state.lastSyncedWALOffset > WALHeaderSize {
		// the position the last copy recorded, as the last level-0 file would hold it
		last := &vxLTX{level: 0, min: 1, max: 1, commit: 2, ts: 1000, pages: []vxPg{{1, 1}, {2, 2}}}
		vx.FSWriteFile(db.LTXPath(0, 1, 1), vxEncodeLTXWAL(last, WALHeaderSize, exec.state.lastSyncedWALOffset-WALHeaderSize, 0, 0))
		exec.pos = ltx.Pos{TXID: 1}
		info, verr := db.verifyWithExecutorReal(context.Background(), exec)
		vx.Assert("after-a-blocking-checkpoint-whose-follow-up-failed-the-next-round-re-snapshots", verr != nil || info.snapshotting)
	}
	vx.ObserveBool("ok", err == nil)
}

// VxC14Close: Close releases the read lock and the handles whatever fails.
func VxC14Close() {
	dir := vx.TempDir()
	path := dir + "/app.db"
	vx.FSWriteFile(path, []byte("SQLite format 3\x00"))
	vx.FSWriteFile(path+"-wal", make([]byte, WALHeaderSize))
	e := vxNewSQLEnv(false)
	defer func() { vxSQLHandler = nil }()
	db := NewDB(path)
	if err := db.init(context.Background()); err != nil {
		panic(err)
	}
	e.faults = true
	vxSyncStub = true
	defer func() { vxSyncStub = false }()
	// syncLocked's executor needs the level-0 directory
	vx.FSMkdirAll(db.LTXLevelDir(0))
	_ = db.Close(context.Background())
	e.check(db)
	vx.Assert("close-releases-read-lock-and-handles", db.rtx == nil && db.db == nil && db.f == nil && e.closed && len(e.open) == 0)
}

// VxC14EnsureExists: the start-up step that restores a missing database. When
// the source database is there (the application may be attached to it, its WAL
// holding commits that are in no checkpoint yet) nothing of it may be touched:
// not the file, not its -wal / -shm, and no integrity check may be run on it (the
// check is written for freshly restored copies and unlinks -wal and -shm when it
// is done).
func VxC14EnsureExists() {
	dir := vx.TempDir()
	path := dir + "/app.db"
	exists := vx.Fault("sourceExists")
	dbBytes := []byte("SQLite format 3\x00 live database")
	walBytes := append(make([]byte, WALHeaderSize), []byte("frames not checkpointed yet")...)
	if exists {
		vx.FSWriteFile(path, dbBytes)
		vx.FSWriteFile(path+"-wal", walBytes)
		vx.FSWriteFile(path+"-shm", []byte("wal-index"))
	}
	db := NewDB(path)
	c := &vxStoreClient{}
	if vx.Fault("replicaHasBackup") {
		c.put(&vxLTX{level: SnapshotLevel, min: 1, max: 2, commit: 2, ts: 1000, pages: []vxPg{{1, 11}, {2, 12}}})
		c.put(&vxLTX{level: 0, min: 2, max: 2, commit: 2, ts: 1000, pages: []vxPg{{1, 11}}})
	}
	db.Replica = NewReplicaWithClient(db, c)
	vxIntegrityPaths = nil
	// first deployment: nothing to restore, and the application - started together
	// with litestream - creates its database while litestream is still asking the
	// replica (one round trip at least lies between the existence test and the answer)
	createdMeanwhile := false
	if !exists && len(c.files) == 0 && vx.Fault("appCreatesDatabaseMeanwhile") {
		c.onList = func() {
			createdMeanwhile = true
			vx.FSWriteFile(path, dbBytes)
			vx.FSWriteFile(path+"-wal", walBytes)
			vx.FSWriteFile(path+"-shm", []byte("wal-index"))
		}
	}
	err := db.EnsureExists(context.Background())
	if createdMeanwhile {
		same := vx.FSExists(path) && string(vx.FSReadFile(path)) == string(dbBytes) && vx.FSExists(path+"-wal") && vx.FSExists(path+"-shm") &&
			string(vx.FSReadFile(path+"-wal")) == string(walBytes)
		vx.Assert("database-created-meanwhile-is-left-alone", same)
		return
	}
	if !exists {
		vx.ObserveBool("restored", err == nil && vx.FSExists(path))
		return
	}
	vx.Assert("existing-source-is-accepted", err == nil)
	same := string(vx.FSReadFile(path)) == string(dbBytes) && vx.FSExists(path+"-wal") && vx.FSExists(path+"-shm") &&
		string(vx.FSReadFile(path+"-wal")) == string(walBytes)
	vx.Assert("existing-source-and-its-wal-untouched", same)
	touched := false
	for _, p := range vxIntegrityPaths {
		if p == path {
			touched = true
		}
	}
	vx.Assert("no-integrity-check-on-the-live-source", !touched)
}

// VxC14ResetLocal: a reset of the local state (`litestream reset`, or the replica
// monitor's auto-recovery) with the meta path wherever a configuration may put
// it - the default hidden directory, the database's own directory, or an ancestor
// of it: the database, its -wal and -shm and whatever else the application keeps
// beside them are still there, byte for byte; only the ltx tree is gone.
func VxC14ResetLocal() {
	base := vx.TempDir()
	dir := base + "/data"
	path := dir + "/app.db"
	dbBytes := []byte("SQLite format 3\x00 live database")
	walBytes := append(make([]byte, WALHeaderSize), []byte("frames not checkpointed yet")...)
	vx.FSWriteFile(path, dbBytes)
	vx.FSWriteFile(path+"-wal", walBytes)
	vx.FSWriteFile(path+"-shm", []byte("wal-index"))
	vx.FSWriteFile(dir+"/other.db", []byte("another application file"))
	db := NewDB(path)
	switch vx.Choose("metaPath", 0, 2) {
	case 1:
		db.SetMetaPath(dir)
	case 2:
		db.SetMetaPath(base)
	}
	vx.FSMkdirAll(db.LTXLevelDir(0))
	vx.FSWriteFile(db.LTXPath(0, 1, 1), []byte("ltx"))
	vx.FSWriteFile(db.LTXPath(0, 2, 2)+".tmp", []byte("half"))
	c := &vxStoreClient{}
	if vx.Fault("withReplica") {
		db.Replica = NewReplicaWithClient(db, c)
	}
	err := db.ResetLocalState(context.Background())
	vx.Assert("reset-succeeds", err == nil)
	same := string(vx.FSReadFile(path)) == string(dbBytes) && vx.FSExists(path+"-wal") && vx.FSExists(path+"-shm") &&
		string(vx.FSReadFile(path+"-wal")) == string(walBytes) && vx.FSExists(dir+"/other.db")
	vx.Assert("reset-leaves-the-database-and-its-neighbours-alone", same)
	vx.Assert("reset-removes-the-local-ltx-files", !vx.FSExists(db.LTXPath(0, 1, 1)))
}
