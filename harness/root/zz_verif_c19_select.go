// vx:optional (coupled to internal helpers: dropped, not fatal, if it no longer compiles)
package litestream

import (
	"time"

	"github.com/benbjohnson/litestream/internal/vx"
)

// VxC19Select: snapshot choice and segment filtering by time.
func VxC19Select() {
	n := vx.Param("SNAPS", 3)
	now := time.Now()
	var snaps []SnapshotInfoV3
	ages := make([]uint64, n)
	for i := 0; i < n; i++ {
		ages[i] = vx.Range("snapage", 0, 6)
		snaps = append(snaps, SnapshotInfoV3{Generation: "g1", Index: i, CreatedAt: vx.TimeAgo(now, ages[i])})
	}
	tAge := vx.Range("tage", 0, 6)
	useT := vx.Fault("useT")
	var T time.Time
	if useT {
		// T = now - tAge (whole second): never equal to a snapshot time (those end in .5)
		T = now.Add(-time.Duration(vx.Concrete(tAge)) * time.Second)
	}
	sortSnapshotsV3ByCreatedAt(snaps)
	for i := 1; i < len(snaps); i++ {
		vx.Assert("sorted-by-time", !snaps[i-1].CreatedAt.After(snaps[i].CreatedAt))
	}
	best := findBestSnapshotV3(snaps, T)
	// reference: the newest snapshot not after T (or the newest of all)
	eligible := func(i int) bool { return vx.Or(!useT, vx.Not(snaps[i].CreatedAt.After(T))) }
	anyEl := false
	for i := range snaps {
		anyEl = vx.Or(anyEl, eligible(i))
	}
	if best == nil {
		vx.Assert("nil-only-if-none-eligible", vx.Not(anyEl))
		return
	}
	isEl := !useT || !best.CreatedAt.After(T)
	vx.Assert("chosen-is-eligible", isEl)
	for i := range snaps {
		vx.Assert("chosen-is-newest-eligible", vx.Implies(eligible(i), !snaps[i].CreatedAt.After(best.CreatedAt)))
	}
	// filter: every kept segment is at or after the snapshot index and not after T; none dropped otherwise
	var segs []WALSegmentInfoV3
	for i := 0; i < 3; i++ {
		segs = append(segs, WALSegmentInfoV3{Generation: "g1", Index: i, CreatedAt: vx.TimeAgo(now, vx.Range("segage", 0, 6))})
	}
	kept := filterWALSegmentsV3(segs, best.Index, T)
	k := 0
	for _, seg := range segs {
		want := seg.Index >= best.Index && (!useT || !seg.CreatedAt.After(T))
		got := k < len(kept) && kept[k].Index == seg.Index
		vx.Assert("filter-keeps-exactly-eligible", want == got)
		if got {
			k++
		}
	}
}
