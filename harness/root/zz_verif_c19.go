package litestream

// C19 harness: legacy 0.3.x restore logic. Snapshot choice, segment filtering,
// WAL reassembly (contiguity in index and offset) and format arbitration are
// the real code; the SQLite checkpoint that applies a reassembled WAL is the
// environment cut vxCheckpointV3 (see harness/mkspec.py "rewrites").

import (
	"bytes"
	"context"
	"errors"
	"io"
	"os"
	"time"

	"github.com/benbjohnson/litestream/internal/vx"
	"github.com/superfly/ltx"
)

// vxCkptLog records, per checkpoint call, the bytes of the reassembled WAL.
var vxCkptLog [][]byte

// checkpointV3 stands in for SQLite applying <db>-wal to <db>: it records the WAL
// bytes and removes the WAL file (what PRAGMA wal_checkpoint(TRUNCATE) + close do).
func checkpointV3(dbPath string) error {
	b, err := os.ReadFile(dbPath + "-wal")
	if err != nil {
		return err
	}
	vxCkptLog = append(vxCkptLog, b)
	// SQLite flushes the database file during a checkpoint only when it copies at
	// least one frame into it; whether this WAL holds a committed frame is not
	// modelled, so either may happen
	if vxCkptMayFlush && vx.Fault("checkpointCopiedFrames") {
		if f, err := os.OpenFile(dbPath, os.O_RDWR, 0); err == nil {
			_ = f.Sync()
			_ = f.Close()
		}
	}
	return os.Remove(dbPath + "-wal")
}

// vxCkptMayFlush: the durability variant of the restore harness (C11).
var vxCkptMayFlush bool

var _ = checkpointV3Real

// vxV3Client serves a legacy layout from memory.
type vxV3Client struct {
	vxRepClient
	gens  []string
	snaps map[string][]SnapshotInfoV3
	segs  map[string][]WALSegmentInfoV3
	body  map[[2]int64][]byte // (index, offset) -> uncompressed bytes
	// mayBreak: one segment download may break off mid-stream
	mayBreak    bool
	streamBroke bool
}

type vxErrReader struct{}

func (vxErrReader) Read([]byte) (int, error) { return 0, errors.New("vx: connection reset") }

func (c *vxV3Client) GenerationsV3(ctx context.Context) ([]string, error) { return c.gens, nil }
func (c *vxV3Client) SnapshotsV3(ctx context.Context, g string) ([]SnapshotInfoV3, error) {
	return c.snaps[g], nil
}
func (c *vxV3Client) WALSegmentsV3(ctx context.Context, g string) ([]WALSegmentInfoV3, error) {
	return c.segs[g], nil
}
func (c *vxV3Client) OpenSnapshotV3(ctx context.Context, g string, index int) (io.ReadCloser, error) {
	return io.NopCloser(bytes.NewReader([]byte{0x53, byte(index)})), nil
}
func (c *vxV3Client) OpenWALSegmentV3(ctx context.Context, g string, index int, offset int64) (io.ReadCloser, error) {
	b, ok := c.body[[2]int64{int64(index), offset}]
	if !ok {
		return nil, os.ErrNotExist
	}
	// a download that breaks off: some of the segment's bytes, then an error (once
	// per scenario; opening the segment again serves it whole)
	if c.mayBreak && !c.streamBroke && vx.Fault("segmentStreamBreaks") {
		c.streamBroke = true
		k := vx.Choose("bytesBeforeBreak", 0, len(b)-1)
		return io.NopCloser(io.MultiReader(bytes.NewReader(b[:k]), vxErrReader{})), nil
	}
	return io.NopCloser(bytes.NewReader(b)), nil
}

// vxV3Layout builds the segments of WAL indexes s..s+nidx-1: each index has one
// or two segments of one or two bytes (so offsets differ between layouts), every
// byte distinct; then removes at most one segment. Times are symbolic ages.
func vxV3Layout(c *vxV3Client, gen string, s, nidx int, withTimes bool, now time.Time) (all []WALSegmentInfoV3) {
	tag := byte(1)
	for i := s; i < s+nidx; i++ {
		nseg := vx.Choose("nseg", 1, 2)
		off := int64(0)
		for k := 0; k < nseg; k++ {
			sz := vx.Choose("segsize", 1, 2)
			b := make([]byte, sz)
			for j := range b {
				b[j] = tag
				tag++
			}
			seg := WALSegmentInfoV3{Generation: gen, Index: i, Offset: off, Size: int64(sz)}
			if withTimes {
				seg.CreatedAt = vx.TimeAgo(now, vx.Range("segage", 0, 6))
			}
			c.body[[2]int64{int64(i), off}] = b
			all = append(all, seg)
			off += int64(sz)
		}
	}
	return all
}

// vxV3Expect walks a (filtered, sorted) segment list by the observable
// contiguity rule: the first segment must be (s,0); each next one must either
// continue the same index at the running offset or start the next index at 0.
// It returns whether the list is acceptable and the expected WAL bytes per index.
func vxV3Expect(c *vxV3Client, segs []WALSegmentInfoV3, s int) (ok bool, wals [][]byte) {
	curIdx, curOff := s-1, int64(0)
	for _, seg := range segs {
		switch {
		case seg.Index == curIdx+1 && seg.Offset == 0:
			curIdx++
			curOff = 0
			wals = append(wals, nil)
		case seg.Index == curIdx && seg.Offset == curOff && len(wals) > 0:
		default:
			return false, nil
		}
		b := c.body[[2]int64{int64(seg.Index), seg.Offset}]
		wals[len(wals)-1] = append(wals[len(wals)-1], b...)
		curOff += int64(len(b))
	}
	return true, wals
}

func vxV3Replica(c *vxV3Client) *Replica {
	r := NewReplicaWithClient(nil, c)
	return r
}

// VxC19Restore: the whole RestoreV3 over the file-system model: error and no
// output on a gap, output only by rename of the finished temp file.
func VxC19Restore() {
	nidx := vx.Param("IDX", 2)
	c := &vxV3Client{body: map[[2]int64][]byte{}, snaps: map[string][]SnapshotInfoV3{}, segs: map[string][]WALSegmentInfoV3{}}
	c.gens = []string{"g1"}
	s := vx.Choose("snapidx", 0, 1)
	c.snaps["g1"] = []SnapshotInfoV3{{Generation: "g1", Index: s}}
	all := vxV3Layout(c, "g1", s, nidx, false, time.Time{})
	rm := vx.Choose("remove", 0, len(all))
	var segs []WALSegmentInfoV3
	for i, seg := range all {
		if i+1 != rm {
			segs = append(segs, seg)
		}
	}
	c.segs["g1"] = segs
	dir := vx.TempDir()
	out := dir + "/restore/out.db"
	preexisting := vx.Fault("outputExists")
	if preexisting {
		vx.FSWriteFile(out, []byte{1, 2, 3})
	}
	// an earlier attempt on the same output path that failed part-way leaves its
	// reassembled WAL behind (the clean-up removes <output>.tmp only)
	if !preexisting && vx.Fault("leftoverWALFromFailedAttempt") {
		vx.FSWriteFile(out+".tmp-wal", []byte{0x77, 0x77, 0x77, 0x77, 0x77, 0x77, 0x77, 0x77})
	}
	vxCkptLog = nil
	c.mayBreak = vx.Param("BRK", 0) == 1
	vxCkptMayFlush = vx.Param("DUR", 0) == 1
	defer func() { vxCkptMayFlush = false }()
	r := vxV3Replica(c)
	err := r.RestoreV3(context.Background(), RestoreOptions{OutputPath: out, IntegrityCheck: IntegrityCheckNone})
	if vxCkptMayFlush {
		// the restored database becomes visible only with its content flushed
		vx.Assert("restored-database-flushed-before-it-is-published", vx.FSEvents("rename-of-unsynced-file") == 0)
		if err == nil {
			vx.Assert("restored-database-durable-on-success", vx.FSExists(out) && !vx.FSFileDirty(out) && !vx.FSDirDirty(dir+"/restore"))
		}
	}
	if preexisting {
		vx.Assert("existing-output-refused", err != nil && bytes.Equal(vx.FSReadFile(out), []byte{1, 2, 3}))
		return
	}
	ok, wals := vxV3Expect(c, segs, s)
	vx.Assert("tmp-removed", !vx.FSExists(out+".tmp"))
	if c.streamBroke && err != nil {
		// a broken download may fail the restore (or be retried transparently: then the
		// checks below apply); a failed restore leaves nothing at the output path
		vx.Assert("no-output-on-error", !vx.FSExists(out))
		return
	}
	if !ok {
		vx.Assert("gap-or-missing-segment-is-an-error", err != nil)
		vx.Assert("no-output-on-error", !vx.FSExists(out))
		return
	}
	vx.Assert("contiguous-run-restores", err == nil && vx.FSExists(out))
	vx.Assert("all-wals-applied", len(vxCkptLog) == len(wals))
	same := len(vxCkptLog) == len(wals)
	for i := 0; same && i < len(wals); i++ {
		same = bytes.Equal(vxCkptLog[i], wals[i])
	}
	vx.Assert("each-wal-is-exactly-its-segments", same)
}

// VxC19Generations: the whole RestoreV3 over several generations listed in the
// order a backend lists them (by name, which says nothing about age), each with
// one snapshot and one WAL segment of symbolic ages, with or without a requested
// time: the database restored is the newest snapshot not newer than the requested
// time, from whatever generation, followed by that generation's WAL when it is
// not newer than the requested time either; no eligible snapshot is an error.
func VxC19Generations() {
	g := vx.Param("GENS", 3)
	// a fixed base and whole-second instants: a segment or snapshot may carry exactly
	// the requested time (object stores report whole seconds, -timestamp takes
	// RFC 3339 seconds); "not newer than T" includes it
	now := vxAt(100)
	c := &vxV3Client{body: map[[2]int64][]byte{}, snaps: map[string][]SnapshotInfoV3{}, segs: map[string][]WALSegmentInfoV3{}}
	names := []string{"aaaa", "bbbb", "cccc"}[:g]
	c.gens = names
	snapAge := make([]uint64, g)
	segAge := make([]uint64, g)
	for i, name := range names {
		snapAge[i] = vx.Range("snapage", 0, 6)
		segAge[i] = vx.Range("segage", 0, 6)
		vx.Assume(segAge[i] <= snapAge[i]) // the WAL segment was written after its snapshot
		for j := 0; j < i; j++ {
			vx.Assume(snapAge[i] != snapAge[j]) // generations do not overlap in time
		}
		idx := 10 + i
		c.snaps[name] = []SnapshotInfoV3{{Generation: name, Index: idx, CreatedAt: vx.TimeBack(now, snapAge[i])}}
		c.segs[name] = []WALSegmentInfoV3{{Generation: name, Index: idx, Offset: 0, Size: 1, CreatedAt: vx.TimeBack(now, segAge[i])}}
		c.body[[2]int64{int64(idx), 0}] = []byte{byte(0xa0 + i)}
	}
	useT := vx.Fault("useT")
	tAge := vx.Range("tage", 0, 6)
	var T time.Time
	if useT {
		T = now.Add(-time.Duration(vx.Concrete(tAge)) * time.Second)
	}
	dir := vx.TempDir()
	out := dir + "/restore/out.db"
	vxCkptLog = nil
	r := vxV3Replica(c)
	err := r.RestoreV3(context.Background(), RestoreOptions{OutputPath: out, IntegrityCheck: IntegrityCheckNone, Timestamp: T})
	// reference: eligible = created at or before T
	best := -1
	for i := 0; i < g; i++ {
		el := !useT || vx.Concrete(vx.IteU64(snapAge[i] >= tAge, 1, 0)) == 1
		if el && (best < 0 || vx.Concrete(vx.IteU64(snapAge[i] < snapAge[best], 1, 0)) == 1) {
			best = i
		}
	}
	if best < 0 {
		vx.Assert("no-eligible-snapshot-is-an-error", err != nil && !vx.FSExists(out))
		return
	}
	vx.Assert("restore-succeeds", err == nil && vx.FSExists(out))
	if err != nil {
		return
	}
	vx.Assert("restored-from-the-newest-eligible-snapshot", bytes.Equal(vx.FSReadFile(out), []byte{0x53, byte(10 + best)}))
	segEl := !useT || vx.Concrete(vx.IteU64(segAge[best] >= tAge, 1, 0)) == 1
	if segEl {
		vx.Assert("that-generations-wal-applied", len(vxCkptLog) == 1 && bytes.Equal(vxCkptLog[0], []byte{byte(0xa0 + best)}))
	} else {
		vx.Assert("no-wal-newer-than-requested-time-applied", len(vxCkptLog) == 0)
	}
}

// VxC19Arbitrate: with both formats present, the one holding the more recent
// eligible backup is used.
func VxC19Arbitrate() {
	now := time.Now()
	c := &vxV3Client{body: map[[2]int64][]byte{}, snaps: map[string][]SnapshotInfoV3{}, segs: map[string][]WALSegmentInfoV3{}}
	// one or two legacy generations, listed by name (which says nothing about age):
	// each a snapshot and a newer WAL segment
	ng := vx.Choose("generations", 1, 2)
	names := []string{"aaaa", "bbbb"}[:ng]
	c.gens = names
	snapAge := make([]uint64, ng)
	segAge := make([]uint64, ng)
	for i, name := range names {
		snapAge[i] = vx.Range("v3snapage", 0, 6)
		segAge[i] = vx.Range("v3segage", 0, 6)
		vx.Assume(segAge[i] <= snapAge[i])
		c.snaps[name] = []SnapshotInfoV3{{Generation: name, Index: 0, CreatedAt: vx.TimeAgo(now, snapAge[i])}}
		c.segs[name] = []WALSegmentInfoV3{{Generation: name, Index: 0, Offset: 0, CreatedAt: vx.TimeAgo(now, segAge[i])}}
	}
	ltxSnapAge := vx.Range("ltxsnapage", 0, 6)
	ltxL0Age := vx.Range("ltxl0age", 0, 6)
	vx.Assume(ltxL0Age <= ltxSnapAge)
	c.files = []*ltx.FileInfo{
		{Level: SnapshotLevel, MinTXID: 1, MaxTXID: 1, CreatedAt: vx.TimeAgo(now, ltxSnapAge)},
		{Level: 0, MinTXID: 2, MaxTXID: 2, CreatedAt: vx.TimeAgo(now, ltxL0Age)},
	}
	r := vxV3Replica(c)
	useT := vx.Fault("useT")
	var T time.Time
	tAge := vx.Range("tage", 0, 6)
	if useT {
		T = now.Add(-time.Duration(vx.Concrete(tAge)) * time.Second)
	}
	use, err := r.shouldUseV3Restore(context.Background(), c, T)
	vx.Assert("arbitration-no-error", err == nil)
	if !useT {
		// latest: the format with the more recent backup (ages: smaller = more recent);
		// the legacy side's newest backup is its newest WAL segment in any generation
		v3Latest := segAge[0]
		for i := 1; i < ng; i++ {
			v3Latest = vx.IteU64(segAge[i] < v3Latest, segAge[i], v3Latest)
		}
		vx.Assert("latest-uses-more-recent-format", use == (v3Latest < ltxL0Age))
		return
	}
	// timestamp: eligible snapshot = at or before T (v3) / before T (ltx); pick the more recent eligible one
	v3ok := false
	var v3best uint64 = 1 << 20
	for i := 0; i < ng; i++ {
		el := snapAge[i] >= tAge // created at now-age-0.5 <= now-tAge  <=>  age >= tAge
		v3ok = vx.Or(v3ok, el)
		v3best = vx.IteU64(vx.And(el, snapAge[i] < v3best), snapAge[i], v3best)
	}
	ltxok := ltxSnapAge >= tAge
	want := vx.And(v3ok, vx.Or(vx.Not(ltxok), v3best < ltxSnapAge))
	vx.Assert("timestamp-uses-format-with-newer-eligible-snapshot", use == want)
}

var _ = errors.New
