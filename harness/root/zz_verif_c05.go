package litestream

// C05 harness: Replica.syncOnce under transient storage faults. Every client
// call draws an outcome; after a number of faulty rounds a fault-free round must
// catch up. Local level-0 files are real LTX files in the file-system model.

import (
	"context"
	"errors"
	"fmt"
	"io"
	"time"

	"github.com/benbjohnson/litestream/internal/vx"
	"github.com/superfly/ltx"
)

var errVxInjected = errors.New("vx: injected storage fault")

type vxFaultClient struct {
	vxStoreClient
	faulty     bool
	gapSeen    bool // ghost: the remote level 0 was not 1..max at some instant
	dupWrites  int
	listCalls  int
	writeCalls int
	breaks     int  // downloads that failed mid-stream (at most one per scenario)
	listBroke  bool // a listing broke off part-way (its consumer saw a prefix)
}

func (c *vxFaultClient) remoteMax() ltx.TXID {
	var m ltx.TXID
	for _, f := range c.files {
		if f.Level == 0 && f.MaxTXID > m {
			m = f.MaxTXID
		}
	}
	return m
}

func (c *vxFaultClient) checkGapless() {
	m := c.remoteMax()
	for t := ltx.TXID(1); t <= m; t++ {
		found := false
		for _, f := range c.files {
			if f.Level == 0 && f.MinTXID == t && f.MaxTXID == t {
				found = true
			}
		}
		if !found {
			c.gapSeen = true
		}
	}
}

func (c *vxFaultClient) LTXFiles(ctx context.Context, level int, seek ltx.TXID, useMetadata bool) (ltx.FileIterator, error) {
	c.listCalls++
	if c.faulty && vx.Fault("listFails") {
		return nil, errVxInjected
	}
	itr, err := c.vxRepClient.LTXFiles(ctx, level, seek, useMetadata)
	if err == nil && c.faulty && vx.Fault("listBreaksOff") {
		// a paginated listing whose later page cannot be fetched: some entries, then
		// an error that only Err() and Close() report
		return &vxBreakingIterator{FileIterator: itr, left: 1, onBreak: func() { c.listBroke = true }}, nil
	}
	return itr, err
}

// vxBreakingIterator yields `left` entries and then fails.
type vxBreakingIterator struct {
	ltx.FileIterator
	left    int
	broken  bool
	onBreak func()
}

func (it *vxBreakingIterator) Next() bool {
	if it.left == 0 {
		it.broken = true
		if it.onBreak != nil {
			it.onBreak()
		}
		return false
	}
	it.left--
	if !it.FileIterator.Next() {
		return false
	}
	return true
}

func (it *vxBreakingIterator) Err() error {
	if it.broken {
		return errVxInjected
	}
	return it.FileIterator.Err()
}

func (it *vxBreakingIterator) Close() error {
	_ = it.FileIterator.Close()
	if it.broken {
		return errVxInjected
	}
	return nil
}

func (c *vxFaultClient) WriteLTXFile(ctx context.Context, level int, minTXID, maxTXID ltx.TXID, r io.Reader) (*ltx.FileInfo, error) {
	c.writeCalls++
	outcome := 0
	if c.faulty {
		outcome = vx.Choose("writeOutcome", 0, 3)
	}
	switch outcome {
	case 1: // fails before taking effect, nothing consumed
		return nil, errVxInjected
	case 2: // fails after consuming part of the upload
		buf := make([]byte, 16)
		_, _ = r.Read(buf)
		return nil, errVxInjected
	}
	b, err := io.ReadAll(r)
	if err != nil {
		return nil, err
	}
	if c.data == nil {
		c.data = map[[3]uint64][]byte{}
	}
	if _, dup := c.data[vxKey(level, minTXID, maxTXID)]; dup {
		c.dupWrites++
	} else {
		c.files = append(c.files, &ltx.FileInfo{Level: level, MinTXID: minTXID, MaxTXID: maxTXID, Size: int64(len(b))})
	}
	c.data[vxKey(level, minTXID, maxTXID)] = b
	c.checkGapless()
	if outcome == 3 { // took effect, but the caller is told it failed
		return nil, errVxInjected
	}
	return &ltx.FileInfo{Level: level, MinTXID: minTXID, MaxTXID: maxTXID, Size: int64(len(b))}, nil
}

// vxLocalL0 writes valid level-0 LTX files 1..n into the database's meta directory.
func vxLocalL0(db *DB, n int) (files []*vxLTX) {
	for t := 1; t <= n; t++ {
		f := &vxLTX{level: 0, min: ltx.TXID(t), max: ltx.TXID(t), commit: 1, ts: int64(1000 + t), pages: []vxPg{{pgno: 1, tag: vx.U64("tag")}}}
		vx.FSWriteFile(db.LTXPath(0, f.min, f.max), vxEncodeLTX(f))
		files = append(files, f)
	}
	return files
}

// VxC05Sync: R faulty rounds, then one fault-free round.
func VxC05Sync() {
	n := vx.Param("N", 2)      // local position
	rounds := vx.Param("R", 1) // faulty rounds
	db := NewDB(vx.TempDir() + "/db")
	local := vxLocalL0(db, n)
	c := &vxFaultClient{}
	// the replica already holds a prefix 1..m of level 0 (uploaded earlier: same bytes)
	m := vx.Choose("remotePrefix", 0, n)
	for t := 1; t <= m; t++ {
		c.put(local[t-1])
	}
	// a snapshot may have been uploaded ahead of the level-0 files (DB.Snapshot
	// writes at the local position, however far the level-0 uploads have got)
	if vx.Fault("snapshotAhead") {
		c.put(&vxLTX{level: SnapshotLevel, min: 1, max: ltx.TXID(n), commit: 1, ts: 5000, pages: []vxPg{{pgno: 1, tag: 1}}})
	}
	r := NewReplicaWithClient(db, c)
	db.Replica = r
	// cached replica position: unknown (zero) or the true remote maximum
	if vx.Fault("posCached") {
		r.SetPos(ltx.Pos{TXID: ltx.TXID(m)})
	}
	ctx := context.Background()
	for round := 0; round <= rounds; round++ {
		c.faulty = round < rounds
		res, err := r.syncOnce(ctx, 0)
		vx.Assert("remote-level0-never-gapped", !c.gapSeen)
		vx.Assert("cached-position-never-ahead-of-replica", r.Pos().TXID <= c.remoteMax())
		if err != nil {
			// (the code forgets its cached position after an error; what the property
			// needs is only that a kept position is never ahead of the replica, above)
			vx.ObserveBool("position-forgotten-after-error", r.Pos().IsZero())
		} else if !res.limited {
			// acknowledged: everything up to the local position is stored
			vx.Assert("ack-means-stored", c.remoteMax() == ltx.TXID(n))
		}
		if !c.faulty {
			vx.Assert("fault-free-round-succeeds", err == nil)
			vx.Assert("catches-up", c.remoteMax() == ltx.TXID(n) && r.Pos().TXID == ltx.TXID(n))
		}
	}
	// what is stored is what was written locally
	for t := 1; t <= n; t++ {
		b, ok := c.data[vxKey(0, ltx.TXID(t), ltx.TXID(t))]
		want := vx.FSReadFile(db.LTXPath(0, ltx.TXID(t), ltx.TXID(t)))
		same := ok && len(b) == len(want)
		for i := 0; same && i < len(b); i++ {
			same = b[i] == want[i]
		}
		vx.Assert("stored-bytes-equal-local-file", same)
	}
	vx.Observe("writes", uint64(c.writeCalls))
}

func (c *vxFaultClient) OpenLTXFile(ctx context.Context, level int, minTXID, maxTXID ltx.TXID, offset, size int64) (io.ReadCloser, error) {
	if c.faulty && vx.Fault("openFails") {
		return nil, errVxInjected
	}
	rc, err := c.vxStoreClient.OpenLTXFile(ctx, level, minTXID, maxTXID, offset, size)
	if err == nil && c.faulty && c.breaks == 0 && vx.Fault("streamBreaks") {
		c.breaks++
		// the download delivers a prefix and then fails (error mid-stream)
		b := c.data[vxKey(level, minTXID, maxTXID)][offset:]
		return &vxBreakingReader{b: b[:len(b)/2]}, nil
	}
	return rc, err
}

// vxBreakingReader delivers its bytes and then a transport error instead of EOF.
type vxBreakingReader struct {
	b   []byte
	pos int
}

func (r *vxBreakingReader) Read(p []byte) (int, error) {
	if r.pos >= len(r.b) {
		return 0, errVxInjected
	}
	n := copy(p, r.b[r.pos:])
	r.pos += n
	return n, nil
}

func (r *vxBreakingReader) Close() error { return nil }

// VxC05Compact: a compaction whose listing, download or upload fails leaves no
// partial file, does not move the cached level maximum to a file that does not
// exist, and the next fault-free compaction produces the right range.
func VxC05Compact() {
	k := vx.Param("K", 2)
	c := &vxFaultClient{}
	for t := 2; t < 2+k; t++ {
		c.put(vxGenSource(0, ltx.TXID(t), ltx.TXID(t), 2, int64(1000+t)))
	}
	comp := NewCompactor(c, vxLogger())
	cache := map[int]*ltx.FileInfo{}
	comp.CacheGetter = func(level int) (*ltx.FileInfo, bool) { info, ok := cache[level]; return info, ok }
	comp.CacheSetter = func(level int, info *ltx.FileInfo) { cache[level] = info }
	ctx := context.Background()
	c.faulty = true
	info, err := comp.Compact(ctx, 1)
	exists := func(f *ltx.FileInfo) bool {
		_, ok := c.data[vxKey(f.Level, f.MinTXID, f.MaxTXID)]
		return ok
	}
	if ci, ok := cache[1]; ok {
		vx.Assert("cached-max-is-a-stored-file", exists(ci))
	}
	if err == nil {
		// a source listing that broke off part-way yields a shorter compaction (a prefix
		// of the new source files), which the next pass continues: the file must still
		// start where the level ended and hold exactly the range in its name
		vx.Assert("success-means-stored", info != nil && exists(info) && info.MinTXID == 2 && info.MaxTXID >= 2 && int(info.MaxTXID) <= 1+k)
		if info != nil && !c.listBroke {
			vx.Assert("complete-listing-compacts-every-new-source", int(info.MaxTXID) == 1+k)
		}
		// and the stored file holds what its name says: the newest source's commit size
		// (every source writes its own size; a file that left a source out shows it)
		if info != nil && exists(info) {
			out, derr := vxDecodeLTX(c.data[vxKey(1, info.MinTXID, info.MaxTXID)])
			newest, _ := vxDecodeLTX(c.data[vxKey(0, info.MaxTXID, info.MaxTXID)])
			vx.Assert("success-means-every-source-was-compacted", derr == nil && newest != nil && out.commit == newest.commit && out.ts == newest.ts)
		}
	}
	// whatever is stored under a level-1 name decodes completely (no partial upload is visible)
	for _, f := range c.files {
		if f.Level == 1 {
			_, derr := vxDecodeLTX(c.data[vxKey(1, f.MinTXID, f.MaxTXID)])
			vx.Assert("no-partial-file-visible", derr == nil)
		}
	}
	levelEnd := func() int {
		end := 1
		for _, f := range c.files {
			if f.Level == 1 && int(f.MaxTXID) > end {
				end = int(f.MaxTXID)
			}
		}
		return end
	}
	before := levelEnd() // where level 1 ends after the first attempt (1: nothing stored)
	c.faulty = false
	info2, err2 := comp.Compact(ctx, 1)
	if err2 == nil {
		vx.Assert("retry-writes-the-right-range", int(info2.MinTXID) == before+1 && int(info2.MaxTXID) == 1+k && levelEnd() == 1+k)
	} else {
		// only acceptable when the first attempt took effect although it reported failure
		vx.Assert("retry-refused-only-if-already-stored", errors.Is(err2, ErrNoCompaction) && before == 1+k)
	}
	vx.Assert("level1-consistent", comp.VerifyLevelConsistency(ctx, 1) == nil)
}

// VxC05Limited: the same with a per-call upload limit (MaxSyncLTXFiles): a
// limited result is not an acknowledgement, and Replica.sync loops to the end.
func VxC05Limited() {
	n := vx.Param("N", 3)
	db := NewDB(vx.TempDir() + "/db")
	vxLocalL0(db, n)
	c := &vxFaultClient{}
	r := NewReplicaWithClient(db, c)
	db.Replica = r
	limit := vx.Choose("limit", 1, 2)
	res, err := r.syncOnce(context.Background(), limit)
	vx.Assert("limited-call-no-error", err == nil)
	vx.Assert("limited-when-more-remains", res.limited || n <= limit)
	vx.Assert("uploaded-up-to-limit", int(c.remoteMax()) == min(n, limit) && !c.gapSeen)
	err = r.sync(context.Background(), limit)
	vx.Assert("sync-loop-reaches-local-position", err == nil && int(c.remoteMax()) == n && !c.gapSeen)
}

// vxMonitorClient: a replica whose calls fail in the first `faultyCalls` calls and
// then work; it cancels the monitor's context once enough fault-free calls have
// been made for any retrying loop to have caught up.
type vxMonitorClient struct {
	vxStoreClient
	calls       int
	faultyCalls int
	cancel      context.CancelFunc
	cancelled   bool
}

func (c *vxMonitorClient) step() error {
	c.calls++
	if c.calls <= c.faultyCalls {
		// what a transport reports: a plain error, or one that wraps a context error
		// although the caller's context is alive (per-request timeouts, a cancelled
		// hedged request)
		switch vx.Choose("faultKind", 0, 3) {
		case 1:
			return errVxInjected
		case 2:
			return fmt.Errorf("vx: request timed out: %w", context.DeadlineExceeded)
		case 3:
			return fmt.Errorf("vx: request aborted: %w", context.Canceled)
		}
	}
	return nil
}

func (c *vxMonitorClient) LTXFiles(ctx context.Context, level int, seek ltx.TXID, useMetadata bool) (ltx.FileIterator, error) {
	if err := c.step(); err != nil {
		return nil, err
	}
	return c.vxStoreClient.LTXFiles(ctx, level, seek, useMetadata)
}

func (c *vxMonitorClient) WriteLTXFile(ctx context.Context, level int, minTXID, maxTXID ltx.TXID, r io.Reader) (*ltx.FileInfo, error) {
	if err := c.step(); err != nil {
		return nil, err
	}
	return c.vxStoreClient.WriteLTXFile(ctx, level, minTXID, maxTXID, r)
}

// VxC05Monitor: the replica's background loop (the real Replica.monitor with its
// back-off and retry logic; tickers and timers fire at once) under storage calls
// that fail for a while - with plain errors or with errors that wrap a context
// error while the monitor's own context is alive - and then work. The loop must
// keep running until its context is cancelled, and by then the replica must have
// caught up with the local position.
func VxC05Monitor() {
	n := vx.Param("N", 2)
	db := NewDB(vx.TempDir() + "/db")
	local := vxLocalL0(db, n)
	ctx, cancel := context.WithCancel(context.Background())
	c := &vxMonitorClient{cancel: cancel}
	c.faultyCalls = vx.Choose("faultyCalls", 0, 2)
	// stop the loop after enough ticker rounds for every retry to have happened
	vx.OnTick(4*(c.faultyCalls+n+2), func() {
		c.cancelled = true
		cancel()
	})
	m := vx.Choose("remotePrefix", 0, n-1)
	for t := 1; t <= m; t++ {
		c.put(local[t-1])
	}
	r := NewReplicaWithClient(db, c)
	db.Replica = r
	r.SyncInterval = time.Millisecond
	r.monitor(ctx)
	vx.Assert("monitor-runs-until-its-context-is-cancelled", c.cancelled)
	max := ltx.TXID(0)
	for _, f := range c.files {
		if f.Level == 0 && f.MaxTXID > max {
			max = f.MaxTXID
		}
	}
	vx.Assert("replica-catches-up-once-faults-stop", int(max) == n)
}
