// vx:optional (coupled to an internal signature: dropped, not fatal, if it no longer compiles)
package litestream

import (
	"bytes"
	"context"
	"time"

	"github.com/benbjohnson/litestream/internal/vx"
)

// VxC19Apply: applyWALSegmentsV3 on a layout with at most one segment removed.
func VxC19Apply() {
	nidx := vx.Param("IDX", 2)
	s := vx.Choose("snapidx", 0, 1)
	c := &vxV3Client{body: map[[2]int64][]byte{}}
	all := vxV3Layout(c, "g1", s, nidx, false, time.Time{})
	// remove one segment (or none)
	rm := vx.Choose("remove", 0, len(all))
	var segs []WALSegmentInfoV3
	for i, seg := range all {
		if i+1 != rm {
			segs = append(segs, seg)
		}
	}
	dir := vx.TempDir()
	dbPath := dir + "/out.db.tmp"
	vx.FSWriteFile(dbPath, []byte{0x53})
	vxCkptLog = nil
	r := vxV3Replica(c)
	err := r.applyWALSegmentsV3(context.Background(), c, "g1", s, segs, dbPath)
	ok, wals := vxV3Expect(c, segs, s)
	if !ok {
		vx.Assert("gap-or-missing-segment-is-an-error", err != nil)
		return
	}
	vx.Assert("contiguous-run-applies", err == nil)
	if err != nil {
		return
	}
	same := len(vxCkptLog) == len(wals)
	for i := 0; same && i < len(wals); i++ {
		same = bytes.Equal(vxCkptLog[i], wals[i])
	}
	vx.Assert("each-wal-reassembled-exactly", same)
	vx.Assert("no-wal-left-behind", !vx.FSExists(dbPath+"-wal"))
	vx.Observe("checkpoints", uint64(len(vxCkptLog)))
}
