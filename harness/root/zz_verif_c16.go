package litestream

// C16 harness: follow-mode restore. The poll logic (applyNewLTXFiles,
// fillFollowGap), the follow loop with its sidecar, the resume validation in
// Restore and applyLTXFile's own write order are the real code.

import (
	"bytes"
	"context"
	"errors"
	"os"
	"time"

	"github.com/benbjohnson/litestream/internal/vx"
	"github.com/superfly/ltx"
)

// vxApplyRecord: when set, applyLTXFile only records which file was applied
// (cut point for the chain-logic harnesses); otherwise the real body runs.
var (
	vxApplyRecord bool
	vxApplied     []*ltx.FileInfo
	vxApplyFail   int // fail the k-th apply (1-based), 0 = never
	vxOnApply     func(info *ltx.FileInfo)
)

func (r *Replica) applyLTXFile(ctx context.Context, f *os.File, info *ltx.FileInfo, pageSize uint32) error {
	if !vxApplyRecord {
		return r.applyLTXFileReal(ctx, f, info, pageSize)
	}
	if vxApplyFail != 0 && len(vxApplied)+1 == vxApplyFail {
		vxApplyFail = 0
		return errors.New("vx: injected apply failure")
	}
	vxApplied = append(vxApplied, info)
	if vxOnApply != nil {
		vxOnApply(info)
	}
	return nil
}

// vxFollowSet: n files at levels 0..2 (level 0 single-TXID), symbolic ranges,
// given in (level,min,max) order like vxFileSet.
func vxFollowSet(n int, m uint64) []*ltx.FileInfo {
	files := make([]*ltx.FileInfo, n)
	prevLvl := 0
	for i := 0; i < n; i++ {
		lvl := vx.Choose("lvl", prevLvl, 2)
		prevLvl = lvl
		f := &ltx.FileInfo{Level: lvl, Size: 4096}
		f.MinTXID = ltx.TXID(vx.U64("min"))
		f.MaxTXID = ltx.TXID(vx.U64("max"))
		vx.Assume(vx.And(f.MinTXID >= 1, vx.And(f.MinTXID <= f.MaxTXID, uint64(f.MaxTXID) <= m)))
		if lvl == 0 {
			vx.Assume(f.MinTXID == f.MaxTXID)
		}
		if i > 0 && files[i-1].Level == lvl {
			p := files[i-1]
			vx.Assume(vx.Or(p.MinTXID < f.MinTXID, vx.And(p.MinTXID == f.MinTXID, p.MaxTXID <= f.MaxTXID)))
		}
		files[i] = f
	}
	return files
}

// vxReachFrom: the largest TXID reachable from `from` by chains of files
// (each file starts no later than one past the current TXID and extends it).
func vxReachFrom(files []*ltx.FileInfo, from uint64) uint64 {
	n := len(files)
	cur := from
	for round := 0; round < n; round++ {
		next := cur
		for _, f := range files {
			ok := vx.And(uint64(f.MinTXID) <= cur+1, uint64(f.MaxTXID) > next)
			next = vx.IteU64(ok, uint64(f.MaxTXID), next)
		}
		cur = next
	}
	return cur
}

// VxC16Poll: one poll applies a valid chain from the current TXID; repeated
// polls converge to the furthest TXID any chain reaches.
func VxC16Poll() {
	n := vx.Param("N", 3)
	m := uint64(vx.Param("M", 5))
	files := vxFollowSet(n, m)
	after := vx.U64("after")
	vx.Assume(after <= m)
	c := &vxRepClient{files: files}
	r := NewReplicaWithClient(nil, c)
	vxApplyRecord, vxApplied, vxApplyFail, vxOnApply = true, nil, 0, nil
	defer func() { vxApplyRecord = false }()
	ctx := context.Background()
	cur := after
	for poll := 0; poll < n+1; poll++ {
		vxApplied = nil
		got, err := r.applyNewLTXFiles(ctx, nil, ltx.TXID(cur), 4096)
		vx.Assert("poll-no-error", err == nil)
		// the applied files form a valid chain from cur, and the result is its end
		c2 := cur
		ok := true
		for _, f := range vxApplied {
			ok = vx.And(ok, vx.And(uint64(f.MinTXID) <= c2+1, uint64(f.MaxTXID) > c2))
			c2 = uint64(f.MaxTXID)
		}
		vx.Assert("applied-files-form-a-chain", ok)
		vx.Assert("returned-txid-is-chain-end", uint64(got) == c2)
		vx.Assert("never-regresses", uint64(got) >= cur)
		cur = uint64(got)
	}
	want := vxReachFrom(files, after)
	vx.Assert("converges-to-furthest-reachable", cur == want)
}

// vxSQLiteHeaderDB returns a database file image of `pages` pages whose header
// announces the page size (bytes 16-17) and WAL mode (bytes 18-19 = 2,2).
func vxDBImage(pages int, fill byte) []byte {
	b := make([]byte, pages*vxPageSize)
	for i := range b {
		b[i] = fill
	}
	b[16], b[17] = byte(vxPageSize>>8), byte(vxPageSize&0xff)
	b[18], b[19] = 2, 2
	return b
}

// VxC16Apply: the real applyLTXFile on a database file: every page of the LTX
// file lands at (pgno-1)*pageSize, the file is cut to the commit size, the
// decoder is closed (checksum verified) before success, and only header bytes
// 18-19 and 24-27 of page 1 differ from the decoded image.
func VxC16Apply() {
	dir := vx.TempDir()
	db := dir + "/follow.db"
	// the follower's file before the apply is in whatever state an earlier apply can
	// have left it in, including an apply of this very file that was interrupted
	// after page 1 (which carries the new page count in its header) had been
	// written but before the file was cut: its size and the page count its header
	// announces are independent
	img := vxDBImage(vx.Choose("pagesBefore", 1, 4), 0xEE)
	img[28], img[29], img[30] = 0, 0, 0
	img[31] = byte(vx.Range("headerPageCount", 0, 5))
	vx.FSWriteFile(db, img)
	c := &vxStoreClient{}
	commit := uint32(vx.Choose("commit", 1, 4))
	f := &vxLTX{level: 0, min: 5, max: 5, commit: commit, ts: 1000}
	np := vx.Choose("npages", 1, 2)
	var prev uint32
	for i := 0; i < np; i++ {
		p := uint32(vx.U64("pgno"))
		vx.Assume(vx.And(p > prev, p <= commit))
		pc := uint32(vx.Concrete(uint64(p)))
		f.pages = append(f.pages, vxPg{pgno: pc, tag: vx.U64("tag")})
		prev = pc
	}
	c.put(f)
	r := NewReplicaWithClient(nil, c)
	fh, err := os.OpenFile(db, os.O_RDWR, 0)
	if err != nil {
		panic(err)
	}
	defer fh.Close()
	vxApplyRecord = false
	err = r.applyLTXFileReal(context.Background(), fh, c.files[0], vxPageSize)
	vx.Assert("apply-succeeds", err == nil)
	if err != nil {
		return
	}
	got := vx.FSReadFile(db)
	vx.Assert("size-is-commit", len(got) == int(commit)*vxPageSize)
	if len(got) != int(commit)*vxPageSize {
		return
	}
	for _, p := range f.pages {
		off := int(p.pgno-1) * vxPageSize
		vx.Assert("page-image-at-its-offset", vxTagOf(got[off:off+8]) == p.tag)
		if p.pgno == 1 {
			vx.Assert("header-says-rollback-journal", got[18] == 1 && got[19] == 1)
			same := true
			for i := 8; i < vxPageSize; i++ {
				if i == 18 || i == 19 || (i >= 24 && i < 28) {
					continue
				}
				same = same && got[off+i] == 0
			}
			vx.Assert("only-header-bytes-rewritten", same)
		}
	}
	// pages the file does not hold keep their previous bytes
	for pg := 1; pg <= int(commit) && pg <= 3; pg++ {
		held := false
		for _, p := range f.pages {
			if int(p.pgno) == pg {
				held = true
			}
		}
		if !held && pg > 1 && pg <= len(img)/vxPageSize {
			vx.Assert("other-pages-untouched", got[(pg-1)*vxPageSize+100] == 0xEE)
		}
	}
	vx.Assert("database-flushed", !vx.FSFileDirty(db))
}

// VxC16ApplyFar: the real applyLTXFile on a follower whose database lies across
// the 4 GiB offset (a sparse file; 512-byte pages): a page on either side of the
// boundary lands at (pgno-1)*pageSize, the pages at the start of the file keep
// their bytes, and the file is cut to the commit size.
func VxC16ApplyFar() {
	dir := vx.TempDir()
	db := dir + "/follow.db"
	boundary := uint32((int64(1) << 32) / vxPageSize) // pages below the 4 GiB offset
	pgno := boundary + uint32(vx.Choose("pageAt4GiB", 0, 2))
	commit := pgno + uint32(vx.Choose("pagesAfter", 0, 1))
	before := int64(boundary+uint32(vx.Choose("sizeBefore", 0, 3))) * vxPageSize
	vx.FSSparseFile(db, before)
	for pg := 1; pg <= 3; pg++ {
		vx.FSSparsePatch(db, int64(pg-1)*vxPageSize+100, []byte{0xE0 + byte(pg)})
	}
	c := &vxStoreClient{}
	tag := vx.U64("tag")
	c.put(&vxLTX{level: 0, min: 5, max: 5, commit: commit, ts: 1000, pages: []vxPg{{pgno: pgno, tag: tag}}})
	r := NewReplicaWithClient(nil, c)
	fh, err := os.OpenFile(db, os.O_RDWR, 0)
	if err != nil {
		panic(err)
	}
	defer fh.Close()
	vxApplyRecord = false
	err = r.applyLTXFileReal(context.Background(), fh, c.files[0], vxPageSize)
	vx.Assert("apply-succeeds", err == nil)
	if err != nil {
		return
	}
	fi, serr := fh.Stat()
	vx.Assert("size-is-commit", serr == nil && fi.Size() == int64(commit)*vxPageSize)
	var b [8]byte
	_, rerr := fh.ReadAt(b[:], int64(pgno-1)*vxPageSize)
	vx.Assert("page-image-at-its-offset", rerr == nil && vxTagOf(b[:]) == tag)
	for pg := 1; pg <= 3; pg++ {
		var m [1]byte
		_, merr := fh.ReadAt(m[:], int64(pg-1)*vxPageSize+100)
		vx.Assert("other-pages-untouched", merr == nil && m[0] == 0xE0+byte(pg))
		var h [8]byte
		_, herr := fh.ReadAt(h[:], int64(pg-1)*vxPageSize)
		vx.Assert("other-pages-untouched", herr == nil && vxTagOf(h[:]) == 0)
	}
	vx.Assert("database-flushed", !vx.FSFileDirty(db))
}

// vxFollowClient cancels the follow loop after a number of polls and lets new
// level-0 files appear between polls.
type vxFollowClient struct {
	vxRepClient
	polls    int
	maxPolls int
	cancel   context.CancelFunc
	appear   map[int][]*ltx.FileInfo // files that become visible at poll k
}

func (c *vxFollowClient) LTXFiles(ctx context.Context, level int, seek ltx.TXID, useMetadata bool) (ltx.FileIterator, error) {
	if level == 0 {
		c.polls++
		c.files = append(c.files, c.appear[c.polls]...)
		if c.polls > c.maxPolls {
			c.cancel()
		}
	}
	return c.vxRepClient.LTXFiles(ctx, level, seek, useMetadata)
}

// VxC16Follow: the follow loop with its sidecar, killed at any file-system
// operation, then resumed from the sidecar. TXIDs are concrete here (the sidecar
// text is parsed back); which files exist when, and the kill point, vary.
func VxC16Follow() {
	dir := vx.TempDir()
	out := dir + "/follow.db"
	vx.FSWriteFile(out, vxDBImage(1, 0))
	start := ltx.TXID(vx.Choose("start", 1, 2))
	vx.FSWriteFile(out+"-txid", []byte(start.String()+"\n"))
	// replica: level 0 has start+1.. up to 2 more files, possibly with the first
	// one compacted away into a level-1 file; one more file appears at poll 2
	c := &vxFollowClient{maxPolls: 3, appear: map[int][]*ltx.FileInfo{}}
	ctx, cancel := context.WithCancel(context.Background())
	c.cancel = cancel
	n := ltx.TXID(vx.Choose("nfiles", 1, 2))
	gapBridged := vx.Fault("firstCompactedAway")
	for t := start + 1; t <= start+n; t++ {
		if t == start+1 && gapBridged {
			c.files = append(c.files, &ltx.FileInfo{Level: 1, MinTXID: start, MaxTXID: t, Size: 4096})
			continue
		}
		c.files = append(c.files, &ltx.FileInfo{Level: 0, MinTXID: t, MaxTXID: t, Size: 4096})
	}
	late := start + n + 1
	c.appear[2] = []*ltx.FileInfo{{Level: 0, MinTXID: late, MaxTXID: late, Size: 4096}}
	// the snapshot the follower was restored from (snapshots are rare: the follower
	// is normally ahead of the newest one)
	c.files = append(c.files, &ltx.FileInfo{Level: SnapshotLevel, MinTXID: 1, MaxTXID: start, Size: 4096})
	// ... or behind it: the primary has taken another snapshot since, while every
	// incremental file the follower still needs is in the replica
	if vx.Fault("newerSnapshotExists") {
		c.files = append(c.files, &ltx.FileInfo{Level: SnapshotLevel, MinTXID: 1, MaxTXID: start + n, Size: 4096})
	}
	r := NewReplicaWithClient(nil, c)

	// ghost: the TXID the database content is at, and what the sidecar said when each apply happened
	applied := start
	sidecarNeverAhead := true
	vxApplyRecord, vxApplied, vxApplyFail = true, nil, 0
	vxOnApply = func(info *ltx.FileInfo) {
		applied = info.MaxTXID
	}
	defer func() { vxApplyRecord, vxOnApply = false, nil }()

	vx.FSCrashAt(vx.Choose("crash", 0, 12))
	var ferr error
	crashed := vx.FSRun(func() {
		ferr = r.follow(ctx, out, start, time.Millisecond)
	})
	side, rerr := ReadTXIDFile(out)
	vx.Assert("sidecar-always-parses", rerr == nil && side != 0)
	vx.Assert("sidecar-complete-file", vx.FSComplete(out+"-txid"))
	vx.Assert("sidecar-never-ahead-of-database", side <= applied && sidecarNeverAhead)
	vx.Assert("sidecar-never-regresses", side >= start)
	if !crashed {
		vx.Assert("follow-returns-nil-on-cancel", ferr == nil)
		vx.Assert("caught-up", side == late && applied == late)
		vx.Assert("no-temp-left", !vx.FSExists(out+"-txid.tmp"))
		return
	}
	// restart: resume from the sidecar and converge without skipping
	c.polls, c.maxPolls = 0, 3
	c.appear = map[int][]*ltx.FileInfo{}
	has := false
	for _, f := range c.files {
		if f.MinTXID == late {
			has = true
		}
	}
	if !has {
		c.files = append(c.files, &ltx.FileInfo{Level: 0, MinTXID: late, MaxTXID: late, Size: 4096})
	}
	ctx2, cancel2 := context.WithCancel(context.Background())
	c.cancel = cancel2
	first := true
	resumedOK := true
	vxOnApply = func(info *ltx.FileInfo) {
		if first {
			// the first file applied after a restart must connect to the sidecar TXID
			resumedOK = info.MinTXID <= side+1 && info.MaxTXID > side
			first = false
		}
		applied = info.MaxTXID
	}
	// the restart goes through Restore's crash-recovery entry: sidecar read,
	// validation against the replica's snapshots, then the loop
	ferr = r.Restore(ctx2, RestoreOptions{OutputPath: out, Follow: true, FollowInterval: time.Millisecond})
	side2, rerr2 := ReadTXIDFile(out)
	vx.Assert("resume-connects-to-sidecar", resumedOK)
	vx.Assert("resume-converges", ferr == nil && rerr2 == nil && side2 == late && applied == late)
}

var _ = bytes.Equal
