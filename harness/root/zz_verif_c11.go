package litestream

// C11 / C03 harnesses (root package): the publish tails of DB.sync,
// WriteTXIDFile and checkDatabaseBehindReplica over the file-system model.
//   C11: every file-system call may fail; ghost dirty bits check "flushed before
//        published, published (directory flushed) before acknowledged".
//   C03: the process is killed immediately before any mutating operation; no
//        final name may map to an incomplete file, and a restart finds its position.

import (
	"context"
	"os"
	"strings"
	"time"

	"github.com/benbjohnson/litestream/internal/vx"
	"github.com/superfly/ltx"
)

// vxSyncDB prepares a database (2 pages), a WAL with one committed transaction,
// local level-0 files 1..n and returns what DB.sync needs.
func vxSyncDB(n int, snapshot bool) (*DB, *syncExecutor, syncInfo) {
	dir := vx.TempDir()
	path := dir + "/app.db"
	vx.FSWriteFile(path, vxDBFile(vxPageSize, []uint64{11, 12}))
	gen := vxGen{salt1: 7, salt2: 9, frames: []vxFrame{{pgno: 2, commit: 0, tag: 21}, {pgno: 1, commit: 2, tag: 22}}}
	vx.FSWriteFile(path+"-wal", vxWALImageOf(vxPageSize, []vxGen{gen}))
	db := NewDB(path)
	db.pageSize = vxPageSize
	f, err := os.Open(path)
	if err != nil {
		panic(err)
	}
	db.f = f
	for t := 1; t <= n; t++ {
		lf := &vxLTX{level: 0, min: ltx.TXID(t), max: ltx.TXID(t), commit: 2, ts: int64(1000 + t), pages: []vxPg{{1, uint64(t)}, {2, uint64(t)}}}
		if t > 1 {
			lf.pages = lf.pages[:1]
		}
		vx.FSWriteFile(db.LTXPath(0, lf.min, lf.max), vxEncodeLTX(lf))
	}
	vx.FSMkdirAll(db.LTXLevelDir(0))
	exec := &syncExecutor{pos: ltx.Pos{TXID: ltx.TXID(n)}}
	info := syncInfo{offset: WALHeaderSize, salt1: 7, salt2: 9, prevCommit: 2, snapshotting: snapshot}
	return db, exec, info
}

func vxTraceHas(prefix string) bool {
	for _, l := range vx.FSTrace() {
		if strings.HasPrefix(l, prefix) {
			return true
		}
	}
	return false
}

func vxIsFinalName(p string) bool {
	return strings.HasSuffix(p, ".ltx") || strings.HasSuffix(p, "-txid") || strings.HasSuffix(p, "/restored.db")
}

// VxC11Sync: DB.sync's publish tail with every file-system call allowed to fail.
func VxC11Sync() {
	n := vx.Choose("localFiles", 0, 1)
	db, exec, info := vxSyncDB(n, vx.Fault("snapshot"))
	defer db.f.Close()
	final := db.LTXPath(0, ltx.TXID(n+1), ltx.TXID(n+1))
	vx.FSFaults(true)
	res, err := db.syncReal(context.Background(), false, exec, info, 0)
	vx.FSFaults(false)
	vx.Assert("renamed-file-was-flushed-and-closed", vx.FSEvents("rename-of-unsynced-file") == 0)
	// the temp file is removed on every path, unless that very removal was made to fail
	// (a stale temp file is then cleaned up by the next Open, see VxC03Sync)
	if !vxTraceHas("FAIL unlink") {
		vx.Assert("temp-file-never-survives", !vx.FSExists(final+".tmp"))
	}
	if err != nil || !res.synced {
		// (Observation: a read fault on the WAL that returns a short count is taken for
		// the end of the WAL by WALReader, so the round copies a prefix or nothing and
		// still returns nil; the next round picks the rest up.)
		return
	}
	vx.Assert("success-published-the-file", vx.FSExists(final) && !vx.FSFileDirty(final) && vx.FSComplete(final))
	vx.Assert("success-only-after-directory-flush", !vx.FSDirDirty(db.LTXLevelDir(0)))
	vx.Assert("position-advances-by-one", res.pos != nil && res.pos.TXID == ltx.TXID(n+1))
	// the published file is a complete LTX file named after its content
	d, derr := vxDecodeLTX(vx.FSReadFile(final))
	vx.Assert("published-file-decodes-and-matches-its-name", derr == nil && d.min == ltx.TXID(n+1) && d.max == ltx.TXID(n+1))
}

// VxC03Sync: kill before every mutating operation of DB.sync, then restart.
func VxC03Sync() {
	n := vx.Choose("localFiles", 0, 1)
	db, exec, info := vxSyncDB(n, vx.Fault("snapshot"))
	defer db.f.Close()
	l0 := db.LTXLevelDir(0)
	final := db.LTXPath(0, ltx.TXID(n+1), ltx.TXID(n+1))
	vx.FSCrashAt(vx.Choose("crash", 0, 26)) // 0 = no kill
	var err error
	crashed := vx.FSRun(func() { _, err = db.syncReal(context.Background(), false, exec, info, 0) })
	if !crashed {
		vx.Assert("uncrashed-sync-succeeds", err == nil && vx.FSExists(final))
	}
	// no final name maps to an incomplete file
	for _, name := range vx.FSList(l0) {
		if vxIsFinalName(name) {
			vx.Assert("final-name-is-a-complete-file", vx.FSComplete(l0+"/"+name))
		}
	}
	// files acknowledged before the kill are still there
	for t := 1; t <= n; t++ {
		vx.Assert("earlier-files-survive", vx.FSExists(db.LTXPath(0, ltx.TXID(t), ltx.TXID(t))))
	}
	// restart: a new DB object on the same directories
	db2 := NewDB(db.path)
	db2.Replica = NewReplicaWithClient(db2, &vxRepClient{})
	db2.MonitorInterval = 0
	vx.Assert("restart-opens", db2.Open() == nil)
	for _, name := range vx.FSList(l0) {
		vx.Assert("restart-removes-temp-files", !strings.HasSuffix(name, ".tmp"))
	}
	pos, perr := db2.Pos()
	want := ltx.TXID(n)
	if vx.FSExists(final) {
		want = ltx.TXID(n + 1)
	}
	vx.Assert("restart-position-is-highest-complete-file", perr == nil && pos.TXID == want)
}

// VxC11Sidecar: WriteTXIDFile with faults.
func VxC11Sidecar() {
	dir := vx.TempDir()
	out := dir + "/restored.db"
	vx.FSWriteFile(out, []byte{1})
	if vx.Fault("hadSidecar") {
		vx.FSWriteFile(out+"-txid", []byte("0000000000000003\n"))
	}
	vx.FSFaults(true)
	err := WriteTXIDFile(out, 5)
	vx.FSFaults(false)
	vx.Assert("renamed-file-was-flushed-and-closed", vx.FSEvents("rename-of-unsynced-file") == 0)
	if err == nil {
		txid, rerr := ReadTXIDFile(out)
		vx.Assert("sidecar-holds-the-txid", rerr == nil && txid == 5 && !vx.FSFileDirty(out+"-txid"))
		vx.Assert("success-only-after-directory-flush", !vx.FSDirDirty(dir))
		vx.Assert("temp-file-never-survives", !vx.FSExists(out+"-txid.tmp"))
	}
}

// VxC03Sidecar: kill at every point of WriteTXIDFile: the sidecar is always the old or the new value.
func VxC03Sidecar() {
	dir := vx.TempDir()
	out := dir + "/restored.db"
	vx.FSWriteFile(out, []byte{1})
	vx.FSWriteFile(out+"-txid", []byte("0000000000000003\n"))
	vx.FSCrashAt(vx.Choose("crash", 0, 5)) // 0 = no kill
	crashed := vx.FSRun(func() { _ = WriteTXIDFile(out, 5) })
	txid, rerr := ReadTXIDFile(out)
	vx.Assert("sidecar-is-old-or-new", rerr == nil && (txid == 3 || txid == 5))
	vx.Assert("sidecar-complete", vx.FSComplete(out+"-txid"))
	if !crashed {
		vx.Assert("uncrashed-write-takes-effect", txid == 5)
	}
}

// VxC11Baseline: checkDatabaseBehindReplica fetches the replica's newest level-0
// file into the local directory.
func VxC11Baseline() {
	dir := vx.TempDir()
	path := dir + "/app.db"
	vx.FSWriteFile(path, vxDBFile(vxPageSize, []uint64{11, 12}))
	db := NewDB(path)
	c := &vxStoreClient{}
	for t := 1; t <= 2; t++ {
		lf := &vxLTX{level: 0, min: ltx.TXID(t), max: ltx.TXID(t), commit: 2, ts: int64(1000 + t), pages: []vxPg{{1, uint64(t)}, {2, uint64(t)}}}
		if t > 1 {
			lf.pages = lf.pages[:1]
		}
		c.put(lf)
	}
	db.Replica = NewReplicaWithClient(db, c)
	vx.FSMkdirAll(db.LTXLevelDir(0))
	local := db.LTXPath(0, 2, 2)
	vx.FSFaults(vx.Fault("withFaults"))
	err := db.checkDatabaseBehindReplica(context.Background())
	vx.FSFaults(false)
	vx.Assert("renamed-file-was-flushed-and-closed", vx.FSEvents("rename-of-unsynced-file") == 0)
	if err == nil {
		vx.Assert("baseline-fetched", vx.FSExists(local) && vx.FSComplete(local) && !vx.FSFileDirty(local))
		vx.Assert("success-only-after-directory-flush", !vx.FSDirDirty(db.LTXLevelDir(0)))
	}
}

// VxC03Baseline: kill before every mutating operation of checkDatabaseBehindReplica
// (the baseline fetch at start-up when the local state is behind the replica),
// then restart: no final LTX name may map to a half-written file, and the
// restarted process gets through init's check again - it fetches the baseline
// anew or finds it complete - without manual intervention.
func VxC03Baseline() {
	dir := vx.TempDir()
	path := dir + "/app.db"
	vx.FSWriteFile(path, vxDBFile(vxPageSize, []uint64{11, 12}))
	db := NewDB(path)
	c := &vxStoreClient{}
	for t := 1; t <= 2; t++ {
		lf := &vxLTX{level: 0, min: ltx.TXID(t), max: ltx.TXID(t), commit: 2, ts: int64(1000 + t), pages: []vxPg{{1, uint64(t)}, {2, uint64(t)}}}
		if t > 1 {
			lf.pages = lf.pages[:1]
		}
		c.put(lf)
	}
	db.Replica = NewReplicaWithClient(db, c)
	l0 := db.LTXLevelDir(0)
	vx.FSMkdirAll(l0)
	local := db.LTXPath(0, 2, 2)
	vx.FSCrashAt(vx.Choose("crash", 0, 12)) // 0 = no kill
	var err error
	crashed := vx.FSRun(func() { err = db.checkDatabaseBehindReplica(context.Background()) })
	if !crashed {
		vx.Assert("uncrashed-fetch-succeeds", err == nil && vx.FSExists(local))
	}
	for _, name := range vx.FSList(l0) {
		if vxIsFinalName(name) {
			vx.Assert("final-name-is-a-complete-file", vx.FSComplete(l0+"/"+name))
		}
	}
	// restart: new DB object; Open removes stale temp files; the check runs again
	db2 := NewDB(path)
	db2.Replica = NewReplicaWithClient(db2, c)
	db2.MonitorInterval = 0
	vx.Assert("restart-opens", db2.Open() == nil)
	rerr := db2.checkDatabaseBehindReplica(context.Background())
	vx.Assert("restart-gets-through-the-baseline-check", rerr == nil)
	pos, perr := db2.Pos()
	vx.Assert("restart-position-is-the-replica-position", perr == nil && pos.TXID == 2 && vx.FSComplete(local))
	for _, name := range vx.FSList(l0) {
		vx.Assert("restart-removes-temp-files", !strings.HasSuffix(name, ".tmp"))
	}
}

// VxC11SyncResetSync: a sync, a run-time reset of the local state directory
// (auto-recovery removes and recreates the LTX directories), another sync: the
// second sync's success still means that the directory the new file was renamed
// into has been flushed - the directory that exists now, not one that was removed.
func VxC11SyncResetSync() {
	db, exec, info := vxSyncDB(0, true)
	defer db.f.Close()
	db.Replica = NewReplicaWithClient(db, &vxRepClient{})
	ctx := context.Background()
	res, err := db.syncReal(ctx, false, exec, info, 0)
	if err != nil || !res.synced {
		panic("vx: first sync failed")
	}
	vx.Assert("success-only-after-directory-flush", !vx.FSDirDirty(db.LTXLevelDir(0)))
	if err := db.ResetLocalState(ctx); err != nil {
		return
	}
	final := db.LTXPath(0, 1, 1)
	vx.Assert("reset-removed-the-local-files", !vx.FSExists(final))
	exec2 := &syncExecutor{}
	info2 := syncInfo{offset: WALHeaderSize, snapshotting: true}
	vx.FSFaults(vx.Fault("withFaults"))
	res2, err2 := db.syncReal(ctx, false, exec2, info2, 0)
	vx.FSFaults(false)
	vx.Assert("renamed-file-was-flushed-and-closed", vx.FSEvents("rename-of-unsynced-file") == 0)
	if err2 != nil || !res2.synced {
		return
	}
	vx.Assert("success-published-the-file", vx.FSExists(final) && !vx.FSFileDirty(final) && vx.FSComplete(final))
	vx.Assert("success-only-after-directory-flush", !vx.FSDirDirty(db.LTXLevelDir(0)))
}

// VxC11RestoreFollow: a restore in follow mode: the database is published under
// its final name only after its content was flushed, and the TXID sidecar - the
// acknowledgement that the database is at that TXID - is published only after
// the database and its directory entry are durable.
func VxC11RestoreFollow() {
	c := &vxDamageClient{}
	expect := vxRestoreReplica(c)
	dir := vx.TempDir()
	out := dir + "/restore/db"
	ctx, cancel := context.WithCancel(context.Background())
	vx.OnTick(2, cancel)
	vxApplyRecord, vxApplied, vxApplyFail = true, nil, 0
	defer func() { vxApplyRecord = false }()
	r := NewReplicaWithClient(nil, c)
	vx.FSFaults(vx.Fault("withFaults"))
	err := r.Restore(ctx, RestoreOptions{OutputPath: out, Follow: true, FollowInterval: time.Millisecond})
	vx.FSFaults(false)
	vx.Assert("renamed-file-was-flushed", vx.FSEvents("rename-of-unsynced-file") == 0)
	if vx.FSExists(out + "-txid") {
		vx.Assert("sidecar-only-beside-a-complete-database", vx.FSExists(out) && vxDBEquals(out, expect))
	}
	if err == nil {
		vx.Assert("follow-restore-leaves-database-and-sidecar", vx.FSExists(out) && vx.FSExists(out+"-txid") && !vx.FSFileDirty(out))
	}
}

// vxFollowStore: a replica holding real encoded files that ends the follow loop
// after a number of polls.
type vxFollowStore struct {
	vxStoreClient
	polls    int
	maxPolls int
	cancel   context.CancelFunc
}

func (c *vxFollowStore) LTXFiles(ctx context.Context, level int, seek ltx.TXID, useMetadata bool) (ltx.FileIterator, error) {
	if level == 0 {
		c.polls++
		if c.polls > c.maxPolls {
			c.cancel()
		}
	}
	return c.vxStoreClient.LTXFiles(ctx, level, seek, useMetadata)
}

// VxC11FollowFlush: the real follow loop with the real applyNewLTXFiles,
// fillFollowGap and applyLTXFile over a replica in which each of the TXIDs after
// the follower's position sits at level 0, 1 or 2 (contiguous level 0, a gap
// bridged in one go, a gap bridged over several polls): the sidecar vouches for
// the database's position, so whenever it is published the database file holds no
// unflushed write, and the loop leaves the database flushed.
func VxC11FollowFlush() {
	n := vx.Param("N", 3)
	dir := vx.TempDir()
	out := dir + "/follow.db"
	vx.FSWriteFile(out, vxDBImage(2, 0))
	vx.FSWriteFile(out+"-txid", []byte(ltx.TXID(1).String()+"\n"))
	c := &vxFollowStore{maxPolls: n + 1}
	for t := 2; t <= 1+n; t++ {
		lvl := vx.Choose("levelOf", 0, 2)
		c.put(&vxLTX{level: lvl, min: ltx.TXID(t), max: ltx.TXID(t), commit: 2, ts: int64(1000 + t), pages: []vxPg{{pgno: 2, tag: uint64(t)}}})
	}
	ctx, cancel := context.WithCancel(context.Background())
	c.cancel = cancel
	r := NewReplicaWithClient(nil, c)
	vx.FSPublishGuard(out+"-txid", out)
	vxApplyRecord = false
	err := r.follow(ctx, out, 1, time.Millisecond)
	vx.Assert("follow-ends-without-error", err == nil)
	vx.Assert("sidecar-published-only-beside-a-flushed-database", vx.FSEvents("publish-beside-unsynced-file") == 0)
	vx.Assert("follow-leaves-the-database-flushed", !vx.FSFileDirty(out))
	side, rerr := ReadTXIDFile(out)
	vx.Assert("follower-caught-up", rerr == nil && int(side) == 1+n)
}
