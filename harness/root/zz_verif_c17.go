package litestream

// C17 harness: databases that cross SQLite's lock-byte page at the 1 GiB
// offset. writeLTXFromWAL (incremental path) is executed with symbolic commit
// sizes and page-map membership around the lock page for every page size;
// writeLTXFromDB (snapshot path) runs its real loop up to the lock page over a
// sparse database file. The real ltx.Encoder validates every page it is given.

import (
	"context"
	"os"

	"github.com/benbjohnson/litestream/internal/vx"
	"github.com/pierrec/lz4/v4"
	"github.com/superfly/ltx"
)

// vxPageSink is the encoder's output: it keeps the page numbers announced by
// 6-byte page headers and drops everything else.
type vxPageSink struct {
	pgnos []uint32
	bytes int64
	// first data byte of the pages in [watchLo, watchHi] (decoded), by page number
	watchLo, watchHi uint32
	ps               int
	first            map[uint32]byte
	state            int // 0 expect page header, 1 expect size, 2 expect data
	cur              uint32
}

func (s *vxPageSink) Write(p []byte) (int, error) {
	s.bytes += int64(len(p))
	switch {
	case s.state == 0 && len(p) == ltx.PageHeaderSize:
		pg := uint32(p[0])<<24 | uint32(p[1])<<16 | uint32(p[2])<<8 | uint32(p[3])
		s.pgnos = append(s.pgnos, pg)
		s.cur = pg
		if pg != 0 {
			s.state = 1
		}
	case s.state == 1 && len(p) == 4:
		s.state = 2
	case s.state == 2:
		s.state = 0
		if s.first != nil && s.cur >= s.watchLo && s.cur <= s.watchHi {
			buf := make([]byte, s.ps)
			if n, err := lz4.UncompressBlock(p, buf); err == nil && n == s.ps {
				s.first[s.cur] = buf[0]
			}
		}
	}
	return len(p), nil
}

var vxPageSizes = [8]int{512, 1024, 2048, 4096, 8192, 16384, 32768, 65536}

// VxC17Incremental: writeLTXFromWAL with prevCommit and commit within 3 pages of
// the lock page, the WAL holding any subset of the pages next to it.
func VxC17Incremental() {
	ps := vxPageSizes[vx.Choose("pagesize", 0, 7)]
	lock := ltx.LockPgno(uint32(ps))
	dir := vx.TempDir()
	dbPath := dir + "/big.db"
	vx.FSSparseFile(dbPath, int64(lock+4)*int64(ps))
	// the WAL: up to three frames, for pages chosen among lock-2, lock-1, lock+1, lock+2
	cands := [4]uint32{lock - 2, lock - 1, lock + 1, lock + 2}
	pageMap := map[uint32]int64{}
	var wal []byte
	wal = append(wal, make([]byte, WALHeaderSize)...)
	for i, pg := range cands {
		if vx.Fault("inWAL") {
			pageMap[pg] = int64(len(wal))
			frame := make([]byte, WALFrameHeaderSize+ps)
			frame[WALFrameHeaderSize] = byte(0xA0 + i) // first data byte marks the WAL version
			wal = append(wal, frame...)
		}
	}
	walPath := dbPath + "-wal"
	vx.FSWriteFile(walPath, wal)
	prevCommit := lock - 3 + uint32(vx.Choose("prevd", 0, 6))
	commit := lock - 3 + uint32(vx.Choose("commitd", 0, 6))
	// every page the WAL holds lies within the new database size (SQLite's invariant)
	for pg := range pageMap {
		vx.Assume(pg <= commit)
	}
	vx.Assume(commit >= 1)

	db := NewDB(dbPath)
	db.pageSize = ps
	f, err := os.Open(dbPath)
	if err != nil {
		panic(err)
	}
	defer f.Close()
	db.f = f
	wf, err := os.Open(walPath)
	if err != nil {
		panic(err)
	}
	defer wf.Close()

	sink := &vxPageSink{}
	enc, err := ltx.NewEncoder(sink)
	if err != nil {
		panic(err)
	}
	if err := enc.EncodeHeader(ltx.Header{Version: ltx.Version, Flags: ltx.HeaderFlagNoChecksum, PageSize: uint32(ps), Commit: commit, MinTXID: 2, MaxTXID: 2, Timestamp: 1}); err != nil {
		panic(err)
	}
	err = db.writeLTXFromWAL(context.Background(), enc, wf, prevCommit, commit, pageMap)
	vx.Assert("incremental-no-error", err == nil)
	if err != nil {
		return
	}
	// exactly: WAL pages plus the growth range, without the lock page, ascending, each once
	var prev uint32
	asc := true
	noLock := true
	for _, pg := range sink.pgnos {
		asc = vx.And(asc, pg > prev)
		noLock = vx.And(noLock, pg != lock)
		prev = pg
	}
	vx.Assert("pages-ascending-once", asc)
	vx.Assert("lock-page-never-encoded", noLock)
	for d := uint32(0); d <= 6; d++ {
		pg := lock - 3 + d
		_, inWAL := pageMap[pg]
		want := vx.And(pg != lock, vx.Or(inWAL, vx.And(pg > prevCommit, pg <= commit)))
		got := false
		for _, x := range sink.pgnos {
			got = vx.Or(got, x == pg)
		}
		vx.Assert("page-encoded-iff-in-wal-or-growth", got == want)
	}
	vx.Observe("pages", uint64(len(sink.pgnos)))
}

// VxC17Snapshot: writeLTXFromDB for a database ending just before, at, or after
// the lock page; the loop runs for real (one iteration per page).
func VxC17Snapshot() {
	ps := vxPageSizes[vx.Param("PSI", 7)]
	lock := ltx.LockPgno(uint32(ps))
	commit := lock - 2 + uint32(vx.Choose("commitd", 0, 4))
	dir := vx.TempDir()
	dbPath := dir + "/big.db"
	vx.FSSparseFile(dbPath, int64(commit)*int64(ps))
	// the pages around the lock page carry a mark in their first byte (0xB0 + distance
	// from lock-2); the lock page's own region holds junk
	for d := uint32(0); d <= 4; d++ {
		pg := lock - 2 + d
		if pg <= commit {
			mark := byte(0xB0 + d)
			if pg == lock {
				mark = 0xEE
			}
			vx.FSSparsePatch(dbPath, int64(pg-1)*int64(ps), []byte{mark})
		}
	}
	// one page next to the lock page comes from the WAL instead of the database file
	pageMap := map[uint32]int64{}
	wal := make([]byte, WALHeaderSize+WALFrameHeaderSize+ps)
	wal[WALHeaderSize+WALFrameHeaderSize] = 0xA7
	walPath := dbPath + "-wal"
	vx.FSWriteFile(walPath, wal)
	if vx.Fault("walHasNeighbour") && lock+1 <= commit {
		pageMap[lock+1] = WALHeaderSize
	}
	db := NewDB(dbPath)
	db.pageSize = ps
	f, err := os.Open(dbPath)
	if err != nil {
		panic(err)
	}
	defer f.Close()
	db.f = f
	wf, err := os.Open(walPath)
	if err != nil {
		panic(err)
	}
	defer wf.Close()
	sink := &vxPageSink{watchLo: lock - 2, watchHi: lock + 2, ps: ps, first: map[uint32]byte{}}
	enc, err := ltx.NewEncoder(sink)
	if err != nil {
		panic(err)
	}
	if err := enc.EncodeHeader(ltx.Header{Version: ltx.Version, Flags: ltx.HeaderFlagNoChecksum, PageSize: uint32(ps), Commit: commit, MinTXID: 1, MaxTXID: 3, Timestamp: 1}); err != nil {
		panic(err)
	}
	err = db.writeLTXFromDB(context.Background(), enc, wf, commit, pageMap)
	vx.Assert("snapshot-no-error", err == nil)
	if err != nil {
		return
	}
	want := int(commit)
	if commit >= lock {
		want--
	}
	ok := len(sink.pgnos) == want
	next := uint32(1)
	for _, pg := range sink.pgnos {
		if next == lock {
			next++
		}
		if pg != next {
			ok = false
		}
		next++
	}
	vx.Assert("every-page-but-the-lock-page-in-order", ok)
	// every page next to the lock page carries its own image (from the database
	// file, or from the WAL where the WAL holds it)
	for d := uint32(0); d <= 4; d++ {
		pg := lock - 2 + d
		if pg == lock || pg > commit {
			continue
		}
		want := byte(0xB0 + d)
		if _, inWAL := pageMap[pg]; inWAL {
			want = 0xA7
		}
		got, have := sink.first[pg]
		vx.Assert("page-next-to-the-lock-page-has-its-own-image", have && got == want)
	}
	vx.Observe("pages", uint64(len(sink.pgnos)))
}

// VxC17PageMap: the WAL reader's page map for frames next to the lock page
// (512-byte pages: lock page 2097153): every committed frame's page is mapped to
// the frame that holds it - in particular the last page below the 1 GiB mark and
// the first one above it.
func VxC17PageMap() {
	lock := ltx.LockPgno(vxPageSize)
	n := vx.Choose("frames", 1, 2)
	g := vxGen{salt1: 11, salt2: 12}
	size := lock + 2
	for i := 0; i < n; i++ {
		pg := lock - 2 + uint32(vx.Choose("pgd", 0, 4))
		vx.Assume(pg != lock) // SQLite never writes the lock page
		g.frames = append(g.frames, vxFrame{pgno: pg, commit: size, tag: vx.U64("tag")})
	}
	img := vxWALImageOf(vxPageSize, []vxGen{g})
	rd, err := NewWALReader(&vxImage{b: img}, vxLogger())
	vx.Assert("wal-opens", err == nil)
	if err != nil {
		return
	}
	m, _, commit, perr := rd.PageMap(context.Background())
	vx.Assert("pagemap-no-error", perr == nil && commit == size)
	fs := int64(WALFrameHeaderSize + vxPageSize)
	for i, f := range g.frames {
		last := true
		for j := i + 1; j < n; j++ {
			if g.frames[j].pgno == f.pgno {
				last = false
			}
		}
		if last {
			off, ok := m[f.pgno]
			vx.Assert("page-next-to-the-lock-page-is-mapped-to-its-frame", ok && off == WALHeaderSize+int64(i)*fs)
		}
	}
}

// vxSinkStaging is a staging file that keeps page numbers only (see vxPageSink);
// the name exists in the file system so that the publish step has a file to rename.
type vxSinkStaging struct {
	*vxPageSink
}

func (s vxSinkStaging) Sync() error  { return nil }
func (s vxSinkStaging) Close() error { return nil }

// VxC17SyncAcross: the real DB.sync taking a snapshot of a database that grows
// across the lock page within this one sync: the database file ends just before
// the lock page and the pages beyond it (never the lock page itself, which SQLite
// does not write) are in the WAL. The sync succeeds and publishes every page but
// the lock page, in order.
func VxC17SyncAcross() {
	ps := vxPageSizes[vx.Param("PSI", 7)]
	lock := ltx.LockPgno(uint32(ps))
	filePages := lock - 1 - uint32(vx.Choose("fileEndsBeforeLock", 0, 1))
	commit := lock + uint32(vx.Choose("pagesBeyondLock", 0, 2))
	dir := vx.TempDir()
	dbPath := dir + "/big.db"
	vx.FSSparseFile(dbPath, int64(filePages)*int64(ps))
	g := vxGen{salt1: 100, salt2: 200}
	for pg := filePages + 1; pg <= commit; pg++ {
		if pg == lock {
			continue
		}
		g.frames = append(g.frames, vxFrame{pgno: pg, tag: uint64(pg)})
	}
	if len(g.frames) == 0 {
		// nothing beyond the file but the lock page: the transaction rewrote page 1
		g.frames = append(g.frames, vxFrame{pgno: 1, tag: 1})
	}
	g.frames[len(g.frames)-1].commit = commit
	vx.FSWriteFile(dbPath+"-wal", vxWALImageOf(ps, []vxGen{g}))
	db := NewDB(dbPath)
	db.pageSize = ps
	f, err := os.Open(dbPath)
	if err != nil {
		panic(err)
	}
	db.f = f
	defer f.Close()
	vx.FSMkdirAll(db.LTXLevelDir(0))
	sink := &vxPageSink{}
	db.openLTXFile = func(name string, flag int, perm os.FileMode) (ltxStagingFile, error) {
		vx.FSWriteFile(name, nil)
		return vxSinkStaging{sink}, nil
	}
	exec := &syncExecutor{}
	info := syncInfo{offset: WALHeaderSize, salt1: 100, salt2: 200, snapshotting: true}
	res, err := db.syncReal(context.Background(), false, exec, info, 0)
	vx.Assert("snapshot-across-the-lock-page-succeeds", err == nil && res.synced)
	if err != nil {
		return
	}
	ok := len(sink.pgnos) >= int(commit)-1
	next := uint32(1)
	for _, pg := range sink.pgnos {
		if pg == 0 {
			break // end-of-pages marker
		}
		if next == lock {
			next++
		}
		if pg != next {
			ok = false
		}
		next++
	}
	vx.Assert("every-page-but-the-lock-page-in-order", ok && next == commit+1 || (ok && commit == lock && next == lock))
}
