package litestream

// C15 harness: timestamp restore. Uses the planner harness of C08 (same file
// sets) with two requested instants, and a replica whose level 0 is complete.

import (
	"context"
	"io"
	"time"

	"github.com/benbjohnson/litestream/internal/vx"
	"github.com/superfly/ltx"
)

func vxAt(sec uint64) time.Time { return time.Unix(int64(vxEpoch+sec), 0).UTC() }

// VxC15Monotone: on one file set, a later T never yields an earlier state, and
// a T that worked keeps working when moved later.
func VxC15Monotone() {
	n := vx.Param("N", 3)
	m := uint64(vx.Param("M", 4))
	files := vxFileSet(n, m, true)
	t1, t2 := vx.U64("T1"), vx.U64("T2")
	vx.Assume(vx.And(t1 <= t2, t2 <= 9))
	ctx := context.Background()
	p1, err1 := CalcRestorePlan(ctx, &vxPlanClient{files: files}, 0, vxAt(t1), vxLogger())
	p2, err2 := CalcRestorePlan(ctx, &vxPlanClient{files: files}, 0, vxAt(t2), vxLogger())
	if err1 == nil {
		vx.Assert("later-T-still-restorable", err2 == nil)
		if err2 == nil {
			vx.Assert("later-T-not-earlier-state", p2[len(p2)-1].MaxTXID >= p1[len(p1)-1].MaxTXID)
		}
		for _, p := range p1 {
			vx.Assert("no-file-at-or-after-T", p.CreatedAt.Before(vxAt(t1)))
		}
	}
	vx.ObserveBool("ok1", err1 == nil)
	vx.ObserveBool("ok2", err2 == nil)
}

// VxC15Exact: level 0 holds TXIDs 1..n completely, replication instants are
// non-decreasing in TXID; a level-1 file and a snapshot may exist as well
// (a compacted file carries the timestamp of its newest input; a snapshot is
// stamped no earlier than the TXID it captures). The result must be exactly the
// last TXID replicated before T, and a T not after the first instant must fail.
func VxC15Exact() {
	n := vx.Param("N", 3)
	var files []*ltx.FileInfo
	ts := make([]uint64, n+1)
	for i := 1; i <= n; i++ {
		ts[i] = vx.U64("ts")
		vx.Assume(ts[i] <= 8)
		if i > 1 {
			vx.Assume(ts[i-1] <= ts[i])
		}
		files = append(files, &ltx.FileInfo{Level: 0, MinTXID: ltx.TXID(i), MaxTXID: ltx.TXID(i), Size: 4096, CreatedAt: vxAt(ts[i])})
	}
	// optional compacted file a..b at level 1
	if vx.Fault("haveL1") {
		a := vx.Choose("l1min", 1, n)
		b := vx.Choose("l1max", a, n)
		files = append(files, &ltx.FileInfo{Level: 1, MinTXID: ltx.TXID(a), MaxTXID: ltx.TXID(b), Size: 4096, CreatedAt: vxAt(ts[b])})
	}
	// optional snapshot 1..s, stamped at or after ts[s]
	if vx.Fault("haveSnap") {
		s := vx.Choose("snap", 1, n)
		st := vx.U64("snapts")
		vx.Assume(vx.And(st >= ts[s], st <= 8))
		files = append(files, &ltx.FileInfo{Level: SnapshotLevel, MinTXID: 1, MaxTXID: ltx.TXID(s), Size: 4096, CreatedAt: vxAt(st)})
	}
	T := vx.U64("T")
	vx.Assume(T <= 9)
	// the requested instant need not lie on the grid file times lie on: it may be a
	// nanosecond or most of a millisecond past a whole second (and so past a file
	// stamped with that second)
	var frac time.Duration
	if vx.Param("FRAC", 1) == 1 {
		frac = []time.Duration{0, time.Nanosecond, 999 * time.Microsecond}[vx.Choose("subMilli", 0, 2)]
	}
	plan, err := CalcRestorePlan(context.Background(), &vxPlanClient{files: files}, 0, vxAt(T).Add(frac), vxLogger())
	// expected: largest i replicated strictly before the requested instant
	var want uint64
	for i := 1; i <= n; i++ {
		before := ts[i] < T
		if frac > 0 {
			before = ts[i] <= T
		}
		want = vx.IteU64(before, uint64(i), want)
	}
	if err != nil {
		vx.Assert("error-only-before-first-backup", want == 0)
		return
	}
	vx.Assert("T-before-first-backup-fails", want != 0)
	vx.Assert("exactly-last-txid-before-T", uint64(plan[len(plan)-1].MaxTXID) == want)
	vx.Observe("reached", uint64(plan[len(plan)-1].MaxTXID))
}

// VxC15SnapshotStamp: the time a level-9 snapshot carries. A snapshot request
// that has to wait for the executor (another sync round completes first and
// publishes one more level-0 file, some time later) ends up covering that newer
// TXID; its header time must then not be earlier than that TXID's replication
// time, or a timestamp restore for an instant in between would return a
// transaction replicated after the requested time.
func VxC15SnapshotStamp() {
	w := vxSnapshotWorldOpts(true)
	defer w.db.f.Close()
	db := w.db
	next := w.pos + 1
	var stampNext int64
	// what the DB's cache of the newest level-0 file can hold in a running process:
	// nothing, or - filled by a compaction check from a replica that lags behind the
	// local position - an older file with that file's time
	if w.pos >= 2 && vx.Fault("level0CacheFromLaggingReplica") {
		m := w.pos - 1
		db.maxLTXFileInfos.m[0] = &ltx.FileInfo{Level: 0, MinTXID: m, MaxTXID: m, CreatedAt: time.UnixMilli(int64(1000 + m))}
	}
	roundInBetween := vx.Fault("roundInBetween")
	if roundInBetween {
		vxLockExecHook = func() {
			// the round that held the executor: time passes, then it publishes pos+1
			// covering the first frame after the replicated range
			vx.ClockStep("syncTakes", 2)
			now := time.Now()
			stampNext = now.UnixMilli()
			lf := &vxLTX{level: 0, min: next, max: next, commit: w.sizePos, ts: stampNext, pages: []vxPg{{w.laterFrames[0].pgno, w.laterFrames[0].tag}}}
			b := vxEncodeLTXWAL(lf, w.laterOffset, vxFS, 100, 200)
			vx.FSWriteFile(db.LTXPath(0, next, next), b)
			db.invalidatePosCache()
			db.maxLTXFileInfos.m[0] = &ltx.FileInfo{Level: 0, MinTXID: next, MaxTXID: next, Size: int64(len(b)), CreatedAt: now}
			db.syncState.lastSyncedWALOffset = w.laterOffset + vxFS
			db.syncState.syncedToWALEnd = false
		}
		defer func() { vxLockExecHook = nil }()
	}
	pos, rc, err := db.SnapshotReader(context.Background())
	if err != nil {
		return
	}
	data, rerr := io.ReadAll(rc)
	_ = rc.Close()
	if rerr != nil {
		return
	}
	snap, derr := vxDecodeLTX(data)
	vx.Assert("snapshot-decodes", derr == nil)
	if derr != nil {
		return
	}
	if !roundInBetween {
		// the snapshot of the local position: never stamped earlier than the level-0
		// file of its newest transaction (local files carry 1000+TXID ms)
		vx.Assert("snapshot-stamp-not-before-its-newest-transaction", pos.TXID == w.pos && snap.ts >= int64(1000+w.pos))
		return
	}
	vx.Assert("snapshot-covers-the-round-it-waited-for", pos.TXID == next && snap.max == next)
	vx.Assert("snapshot-stamp-not-before-its-newest-transaction", snap.ts >= stampNext)
	// and its content is the state at that position
	at := w.atPos
	vxApplyFrames(&at, w.laterFrames[:1])
	ok := len(snap.pages) == int(w.sizePos)
	for i := 0; ok && i < int(w.sizePos); i++ {
		ok = snap.pages[i].pgno == uint32(i+1)
	}
	vx.Assert("snapshot-holds-every-page-once", ok)
	if ok {
		for i := 0; i < int(w.sizePos); i++ {
			vx.Assert("page-image-is-the-one-at-pos", snap.pages[i].tag == at[i])
		}
	}
}

// VxC15Restore: the whole Replica.Restore with a timestamp on a replica where a
// snapshot was uploaded ahead of the level-0 file of the same transaction
// (DB.Snapshot uploads straight from the database; the level-0 upload may lag or
// never happen). The restored pages are those of the last transaction replicated
// before T, whatever else the replica holds.
func VxC15Restore() {
	c := &vxStoreClient{}
	t := [6]uint64{vx.U64("tag"), vx.U64("tag"), vx.U64("tag"), vx.U64("tag"), vx.U64("tag"), vx.U64("tag")}
	put := func(f *vxLTX, sec uint64) {
		c.put(f)
		c.files[len(c.files)-1].CreatedAt = vxAt(sec)
	}
	// TXID 1 at second 10 (snapshot), TXID 2 at second 20, TXID 3 at second 30
	put(&vxLTX{level: SnapshotLevel, min: 1, max: 1, commit: 2, ts: 10000, pages: []vxPg{{1, t[0]}, {2, t[1]}}}, 10)
	put(&vxLTX{level: 0, min: 1, max: 1, commit: 2, ts: 10000, pages: []vxPg{{1, t[0]}, {2, t[1]}}}, 10)
	put(&vxLTX{level: 0, min: 2, max: 2, commit: 2, ts: 20000, pages: []vxPg{{1, t[2]}}}, 20)
	// the newest transaction: its snapshot is on the replica, its level-0 file may not be
	put(&vxLTX{level: SnapshotLevel, min: 1, max: 3, commit: 2, ts: 30000, pages: []vxPg{{1, t[3]}, {2, t[4]}}}, 30)
	if vx.Fault("level0Uploaded") {
		put(&vxLTX{level: 0, min: 3, max: 3, commit: 2, ts: 30000, pages: []vxPg{{1, t[3]}, {2, t[4]}}}, 30)
	}
	T := vx.Choose("T", 5, 35)
	out := vx.TempDir() + "/restore/db"
	r := NewReplicaWithClient(nil, c)
	err := r.Restore(context.Background(), RestoreOptions{OutputPath: out, IntegrityCheck: IntegrityCheckNone, Timestamp: vxAt(uint64(T))})
	switch {
	case T <= 10:
		vx.Assert("T-before-first-backup-fails", err != nil && !vx.FSExists(out))
	case T <= 20:
		vx.Assert("restores-state-before-T", err == nil && vxDBEquals(out, []uint64{t[0], t[1]}))
	case T <= 30:
		vx.Assert("restores-state-before-T", err == nil && vxDBEquals(out, []uint64{t[2], t[1]}))
	default:
		vx.Assert("restores-state-before-T", err == nil && vxDBEquals(out, []uint64{t[3], t[4]}))
	}
}
