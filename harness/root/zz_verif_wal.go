package litestream

// WAL image builder shared by the harnesses that need a WAL SQLite could have
// written (C01, C02, C03, C04, C11): header and frames carry correctly chained
// checksums computed with the reference step function, so "valid" is by
// construction and costs the solver nothing.

import (
	"encoding/binary"
)

type vxFrame struct {
	pgno   uint32
	commit uint32 // database size after this frame if it ends a transaction, else 0
	tag    uint64 // first 8 bytes of the page image
}

type vxGen struct {
	salt1, salt2 uint32
	frames       []vxFrame
}

// vxWALHeader writes a native-order (little-endian checksum) WAL header.
func vxWALHeader(ps int, salt1, salt2 uint32) ([]byte, uint32, uint32) {
	h := make([]byte, WALHeaderSize)
	binary.BigEndian.PutUint32(h[0:], 0x377f0682)
	binary.BigEndian.PutUint32(h[4:], 3007000)
	binary.BigEndian.PutUint32(h[8:], uint32(ps))
	binary.BigEndian.PutUint32(h[12:], 0) // checkpoint sequence
	binary.BigEndian.PutUint32(h[16:], salt1)
	binary.BigEndian.PutUint32(h[20:], salt2)
	c0, c1 := vxCk(false, 0, 0, h[:24])
	binary.BigEndian.PutUint32(h[24:], c0)
	binary.BigEndian.PutUint32(h[28:], c1)
	return h, c0, c1
}

// vxWALFrame writes one frame continuing the checksum chain (c0,c1).
func vxWALFrame(ps int, salt1, salt2 uint32, f vxFrame, c0, c1 uint32) ([]byte, uint32, uint32) {
	b := make([]byte, WALFrameHeaderSize+ps)
	binary.BigEndian.PutUint32(b[0:], f.pgno)
	binary.BigEndian.PutUint32(b[4:], f.commit)
	binary.BigEndian.PutUint32(b[8:], salt1)
	binary.BigEndian.PutUint32(b[12:], salt2)
	binary.BigEndian.PutUint64(b[WALFrameHeaderSize:], f.tag)
	c0, c1 = vxCk(false, c0, c1, b[:8])
	c0, c1 = vxCk(false, c0, c1, b[WALFrameHeaderSize:])
	binary.BigEndian.PutUint32(b[16:], c0)
	binary.BigEndian.PutUint32(b[20:], c1)
	return b, c0, c1
}

// vxWALImageOf lays generations over each other the way SQLite reuses the file:
// the newest generation's header, and at each frame slot the frame of the newest
// generation that reaches it; older generations' frames survive beyond.
func vxWALImageOf(ps int, gens []vxGen) []byte {
	fs := WALFrameHeaderSize + ps
	maxN := 0
	for _, g := range gens {
		if len(g.frames) > maxN {
			maxN = len(g.frames)
		}
	}
	img := make([]byte, WALHeaderSize+maxN*fs)
	for gi, g := range gens {
		h, c0, c1 := vxWALHeader(ps, g.salt1, g.salt2)
		if gi == len(gens)-1 || len(g.frames) > 0 || true {
			copy(img[0:], h)
		}
		for i, f := range g.frames {
			var b []byte
			b, c0, c1 = vxWALFrame(ps, g.salt1, g.salt2, f, c0, c1)
			copy(img[WALHeaderSize+i*fs:], b)
		}
	}
	return img
}

// vxDBFile returns a database file image of n pages with page p's first 8 bytes = tags[p-1].
func vxDBFile(ps int, tags []uint64) []byte {
	b := make([]byte, len(tags)*ps)
	for i, t := range tags {
		binary.BigEndian.PutUint64(b[i*ps:], t)
	}
	return b
}
