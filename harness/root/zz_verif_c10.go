package litestream

// C10 harness (restore side): Replica.Restore from option validation to return,
// over the file-system model with every operation allowed to fail, replica files
// that may be missing, truncated or unreadable, and an integrity check whose
// verdict is arbitrary. The LTX compactor/decoder are the real code.

import (
	"bytes"
	"context"
	"errors"
	"io"

	"github.com/benbjohnson/litestream/internal/vx"
	"github.com/superfly/ltx"
)

// checkIntegrity stands in for SQLite's PRAGMA quick_check/integrity_check on the
// restored file: its verdict is an input.
var (
	vxIntegrityCalls int
	vxIntegrityPaths []string // every path the check (and its -wal/-shm cleanup) was run on
)

func checkIntegrity(ctx context.Context, dbPath string, mode IntegrityCheckMode) error {
	if mode == IntegrityCheckNone {
		return nil
	}
	vxIntegrityCalls++
	vxIntegrityPaths = append(vxIntegrityPaths, dbPath)
	if vx.Fault("integrityFails") {
		return errors.New("integrity check failed: vx")
	}
	return nil
}

var _ = checkIntegrityReal

// vxDamageClient serves a replica whose files may be damaged.
type vxDamageClient struct {
	vxStoreClient
	missing  [3]uint64 // key of a file that cannot be opened (zero = none)
	truncKey [3]uint64 // key of a file that ends early
	truncAt  int
	failOpen bool // every open fails with a transient error
}

func (c *vxDamageClient) OpenLTXFile(ctx context.Context, level int, minTXID, maxTXID ltx.TXID, offset, size int64) (io.ReadCloser, error) {
	k := vxKey(level, minTXID, maxTXID)
	if c.failOpen {
		return nil, errVxInjected
	}
	if k == c.missing {
		return nil, errors.New("vx: object not found")
	}
	b, ok := c.data[k]
	if !ok {
		return nil, errors.New("vx: no such ltx file")
	}
	if k == c.truncKey && c.truncAt < len(b) {
		b = b[:c.truncAt]
	}
	if int(offset) > len(b) {
		offset = int64(len(b))
	}
	return io.NopCloser(bytes.NewReader(b[offset:])), nil
}

// vxRestoreReplica: snapshot 1..1 (two pages) and an incremental file 2..2 that
// rewrites one page and may grow the database by one page.
func vxRestoreReplica(c *vxDamageClient) (expect []uint64) {
	t1, t2 := vx.U64("tag"), vx.U64("tag")
	snap := &vxLTX{level: SnapshotLevel, min: 1, max: 1, commit: 2, ts: 1000, pages: []vxPg{{1, t1}, {2, t2}}}
	c.put(snap)
	expect = []uint64{t1, t2}
	if vx.Fault("haveIncremental") {
		t3 := vx.U64("tag")
		inc := &vxLTX{level: 0, min: 2, max: 2, commit: 2, ts: 2000, pages: []vxPg{{2, t3}}}
		expect[1] = t3
		if vx.Fault("grows") {
			t4 := vx.U64("tag")
			inc.commit = 3
			inc.pages = append(inc.pages, vxPg{3, t4})
			expect = append(expect, t4)
		}
		c.put(inc)
	}
	return expect
}

func vxDBEquals(path string, expect []uint64) bool {
	b := vx.FSReadFile(path)
	if len(b) != len(expect)*vxPageSize {
		return false
	}
	ok := true
	for i, t := range expect {
		ok = vx.And(ok, vxTagOf(b[i*vxPageSize:i*vxPageSize+8]) == t)
	}
	return ok
}

// VxC10Restore: damage on the replica side, faults on the output side.
func VxC10Restore() {
	c := &vxDamageClient{}
	expect := vxRestoreReplica(c)
	// at most one kind of damage
	// (every file of this replica is part of the plan for the latest state; the
	// victim is the snapshot or the newest file)
	victim := c.files[vx.Choose("victim", 0, len(c.files)-1)]
	switch vx.Choose("damage", 0, 4) {
	case 1:
		c.missing = vxKey(victim.Level, victim.MinTXID, victim.MaxTXID)
	case 2:
		c.truncKey = vxKey(victim.Level, victim.MinTXID, victim.MaxTXID)
		c.truncAt = vx.Choose("truncAt", 0, 3) * int(victim.Size) / 4
	case 3:
		// the listing reports a size below the LTX header size (an interrupted upload)
		victim.Size = int64(vx.Choose("tinySize", 0, 2) * (ltx.HeaderSize - 1) / 2)
	case 4:
		c.failOpen = true
	}
	damaged := c.missing != [3]uint64{} || c.truncKey != [3]uint64{} || c.failOpen || victim.Size < ltx.HeaderSize
	dir := vx.TempDir()
	out := dir + "/restore/db"
	preexisting := vx.Fault("outputExists")
	existing := []byte{9, 9, 9}
	if preexisting {
		if vx.Fault("outputIsEmptyFile") {
			existing = []byte{} // what SQLite leaves when a database was opened but nothing committed yet
		}
		vx.FSWriteFile(out, existing)
	}
	mode := IntegrityCheckNone
	if vx.Fault("withIntegrityCheck") {
		mode = IntegrityCheckQuick
	}
	vxIntegrityCalls = 0
	r := NewReplicaWithClient(nil, c)
	vx.FSFaults(vx.Fault("outputSideFaults"))
	err := r.Restore(context.Background(), RestoreOptions{OutputPath: out, IntegrityCheck: mode})
	vx.FSFaults(false)

	if preexisting {
		vx.Assert("existing-output-refused-and-untouched", err != nil && vx.FSExists(out) && bytes.Equal(vx.FSReadFile(out), existing))
		return
	}
	vx.Assert("published-file-was-flushed-and-closed", vx.FSEvents("rename-of-unsynced-file") == 0)
	if damaged {
		vx.Assert("damaged-replica-is-an-error", err != nil)
		vx.Assert("damaged-replica-leaves-no-output", !vx.FSExists(out))
	}
	if err == nil {
		vx.Assert("success-means-correct-database", vx.FSExists(out) && vxDBEquals(out, expect))
		vx.Assert("temp-file-gone", !vx.FSExists(out+".tmp"))
		if mode != IntegrityCheckNone {
			vx.Assert("integrity-check-ran", vxIntegrityCalls == 1)
		}
		return
	}
	// error: the output either does not exist or is the complete, correct database
	// (errors after the rename: directory sync); never a partial file
	if vx.FSExists(out) {
		vx.Assert("output-on-error-is-complete", vxDBEquals(out, expect))
	}
}

// VxC10Integrity: a failed integrity check removes the output (no other faults).
func VxC10Integrity() {
	c := &vxDamageClient{}
	expect := vxRestoreReplica(c)
	dir := vx.TempDir()
	out := dir + "/restore/db"
	vxIntegrityCalls = 0
	r := NewReplicaWithClient(nil, c)
	err := r.Restore(context.Background(), RestoreOptions{OutputPath: out, IntegrityCheck: IntegrityCheckFull})
	vx.Assert("integrity-check-ran", vxIntegrityCalls == 1)
	if err != nil {
		vx.Assert("failed-check-removes-output", !vx.FSExists(out) && !vx.FSExists(out+"-wal") && !vx.FSExists(out+"-shm"))
		vx.Assert("temp-file-gone", !vx.FSExists(out+".tmp"))
		return
	}
	vx.Assert("success-means-correct-database", vx.FSExists(out) && vxDBEquals(out, expect))
}

// VxC10Hole: a replica that has been idle longer than the level-0 retention: a
// snapshot and two compacted files, no level-0 files. With the middle file gone
// the restore to the latest state must fail (the newest file lies beyond a hole),
// not stop before the hole and report success.
func VxC10Hole() {
	c := &vxDamageClient{}
	t := [5]uint64{vx.U64("tag"), vx.U64("tag"), vx.U64("tag"), vx.U64("tag"), vx.U64("tag")}
	c.put(&vxLTX{level: SnapshotLevel, min: 1, max: 1, commit: 2, ts: 1000, pages: []vxPg{{1, t[0]}, {2, t[1]}}})
	lvl := 1 + vx.Choose("level", 0, 1)
	mid := &vxLTX{level: lvl, min: 2, max: 3, commit: 2, ts: 2000, pages: []vxPg{{1, t[2]}}}
	last := &vxLTX{level: lvl, min: 4, max: 5, commit: 2, ts: 3000, pages: []vxPg{{2, t[3]}}}
	c.put(mid)
	c.put(last)
	removed := vx.Fault("middleFileDeleted")
	if removed {
		// deleted from the replica: neither listed nor readable
		var keep []*ltx.FileInfo
		for _, f := range c.files {
			if !(f.Level == lvl && f.MinTXID == 2) {
				keep = append(keep, f)
			}
		}
		c.files = keep
		delete(c.data, vxKey(lvl, 2, 3))
	}
	out := vx.TempDir() + "/restore/db"
	r := NewReplicaWithClient(nil, c)
	err := r.Restore(context.Background(), RestoreOptions{OutputPath: out, IntegrityCheck: IntegrityCheckNone})
	if removed {
		vx.Assert("hole-in-the-chain-is-an-error", err != nil && !vx.FSExists(out))
		return
	}
	vx.Assert("complete-chain-restores", err == nil && vxDBEquals(out, []uint64{t[2], t[3]}))
}
