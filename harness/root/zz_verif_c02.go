package litestream

// C02 harness: the snapshot path. DB.SnapshotReader (snapshotPosition,
// snapshotWALEndOffset, snapshotReader, pageMap with a byte budget,
// writeLTXFromDB) runs on a database file and a WAL built from an abstract
// history; the snapshot it publishes as (1..pos) must be the database exactly as
// of position pos: no frame committed later, nothing uncommitted.

import (
	"context"
	"io"
	"os"

	"github.com/benbjohnson/litestream/internal/vx"
	"github.com/superfly/ltx"
)

type vxSnapWorld struct {
	laterFrames []vxFrame // committed frames after the replicated range (same generation)
	laterOffset int64     // WAL offset of the first of them
	db          *DB
	pos         ltx.TXID
	atPos       [3]uint64 // page images (tags) of pages 1..3 at position pos
	sizePos     uint32    // database size at position pos
}

// vxSymFrames returns n committed single-frame transactions on pages 1..3 (the
// database keeps its size of 3 pages).
func vxSymFrames(n int, name string) []vxFrame { return vxSymFramesSized(n, name, 3) }

// vxSymFramesSized: the same on a database of `size` pages.
func vxSymFramesSized(n int, name string, size uint32) []vxFrame {
	var fr []vxFrame
	for i := 0; i < n; i++ {
		pg := uint32(vx.Range(name+"pg", 1, uint64(size)))
		fr = append(fr, vxFrame{pgno: pg, commit: size, tag: vx.U64(name + "tag")})
	}
	return fr
}

func vxApplyFrames(state *[3]uint64, fr []vxFrame) {
	for _, f := range fr {
		for p := uint32(1); p <= 3; p++ {
			state[p-1] = vx.IteU64(f.pgno == p, f.tag, state[p-1])
		}
	}
}

// vxSnapshotWorld builds the files for one history.
//
//	scenario 0: same WAL generation as the last sync; the application has since
//	            committed `later` more transactions and has one open (uncommitted).
//	scenario 1: the application checkpointed and restarted the WAL after the last
//	            sync (litestream was on read mark 0): the database file holds the
//	            state at pos, the new generation holds `later` newer transactions.
func vxSnapshotWorld() *vxSnapWorld { return vxSnapshotWorldOpts(false) }

// vxSnapshotWorldOpts: with sameGenLater the history is scenario 0 with at least
// one later transaction and the same process (for harnesses that let another
// round run in between).
func vxSnapshotWorldOpts(sameGenLater bool) *vxSnapWorld {
	w := &vxSnapWorld{pos: 3}
	dir := vx.TempDir()
	path := dir + "/app.db"
	base := [3]uint64{vx.U64("base"), vx.U64("base"), vx.U64("base")}
	c := vx.Choose("synced", 1, 2) // frames of generation 0 covered by level-0 files up to pos
	g0 := vxGen{salt1: 100, salt2: 200, frames: vxSymFrames(c, "g0")}
	// the last replicated transaction may have shrunk the database to two pages
	// (VACUUM, auto_vacuum); it stays that size afterwards
	size := uint32(3)
	if vx.Fault("shrunk") {
		size = 2
		last := &g0.frames[c-1]
		last.commit = 2
		vx.Assume(last.pgno <= 2)
	}
	w.sizePos = size
	w.atPos = base
	vxApplyFrames(&w.atPos, g0.frames)
	later := vx.Choose("later", 0, 2)
	scenario := vx.Choose("scenario", 0, 1)
	if sameGenLater {
		vx.Assume(later >= 1 && scenario == 0)
	}
	var gens []vxGen
	dbState := base
	if scenario == 0 {
		w.laterFrames = vxSymFramesSized(later, "late", size)
		w.laterOffset = WALHeaderSize + int64(c)*int64(WALFrameHeaderSize+vxPageSize)
		g0.frames = append(g0.frames, w.laterFrames...)
		if vx.Fault("openTx") {
			g0.frames = append(g0.frames, vxFrame{pgno: uint32(vx.Range("openpg", 1, uint64(size))), commit: 0, tag: vx.U64("opentag")})
		}
		gens = []vxGen{g0}
	} else {
		// generation 0 was fully backfilled before the restart
		dbState = w.atPos
		g1 := vxGen{salt1: 101, salt2: uint32(vx.Range("g1salt2", 0, 1<<31-1)), frames: vxSymFramesSized(later, "g1", size)}
		gens = []vxGen{g0, g1}
	}
	if scenario == 1 {
		// the checkpoint that preceded the restart cut the file to the committed size
		vx.FSWriteFile(path, vxDBFile(vxPageSize, dbState[:size]))
	} else {
		vx.FSWriteFile(path, vxDBFile(vxPageSize, dbState[:]))
	}
	vx.FSWriteFile(path+"-wal", vxWALImageOf(vxPageSize, gens))
	db := NewDB(path)
	db.pageSize = vxPageSize
	f, err := os.Open(path)
	if err != nil {
		panic(err)
	}
	db.f = f
	// local level-0 files 1..pos; the last one records the WAL range it copied
	fs := int64(WALFrameHeaderSize + vxPageSize)
	for t := ltx.TXID(1); t <= w.pos; t++ {
		lf := &vxLTX{level: 0, min: t, max: t, commit: 3, ts: int64(1000 + t), pages: []vxPg{{1, uint64(t)}}}
		if t == 1 {
			lf.pages = []vxPg{{1, 1}, {2, 1}, {3, 1}}
		}
		b := vxEncodeLTXWAL(lf, WALHeaderSize, int64(c)*fs, 100, 200)
		vx.FSWriteFile(db.LTXPath(0, t, t), b)
	}
	// what the running process remembers: the end of the last sync (same process)
	// or nothing (fresh process)
	if sameGenLater || vx.Fault("sameProcess") {
		db.syncState.lastSyncedWALOffset = WALHeaderSize + int64(c)*fs
		db.syncState.syncedToWALEnd = scenario == 1 || later == 0
	}
	w.db = db
	return w
}

// vxEncodeLTXWAL is vxEncodeLTX with the WAL bookkeeping fields of the header set.
func vxEncodeLTXWAL(f *vxLTX, walOffset, walSize int64, salt1, salt2 uint32) []byte {
	buf := &vxByteBuf{}
	enc, err := ltx.NewEncoder(buf)
	if err != nil {
		panic(err)
	}
	if err := enc.EncodeHeader(ltx.Header{Version: ltx.Version, Flags: ltx.HeaderFlagNoChecksum, PageSize: vxPageSize,
		Commit: f.commit, MinTXID: f.min, MaxTXID: f.max, Timestamp: f.ts,
		WALOffset: walOffset, WALSize: walSize, WALSalt1: salt1, WALSalt2: salt2}); err != nil {
		panic(err)
	}
	for _, p := range f.pages {
		if err := enc.EncodePage(ltx.PageHeader{Pgno: p.pgno}, vxPageBytes(p.tag)); err != nil {
			panic(err)
		}
	}
	if err := enc.Close(); err != nil {
		panic(err)
	}
	return buf.b
}

type vxByteBuf struct{ b []byte }

func (w *vxByteBuf) Write(p []byte) (int, error) { w.b = append(w.b, p...); return len(p), nil }

// VxC02MaxLTX: the local position is the highest file name that parses; temp
// files and foreign names in the directory are ignored.
func VxC02MaxLTX() {
	dir := vx.TempDir()
	db := NewDB(dir + "/app.db")
	l0 := db.LTXLevelDir(0)
	vx.FSMkdirAll(l0)
	n := vx.Choose("files", 0, 3)
	for t := 1; t <= n; t++ {
		vx.FSWriteFile(db.LTXPath(0, ltx.TXID(t), ltx.TXID(t)), []byte{1})
	}
	if vx.Fault("staleTemp") {
		vx.FSWriteFile(db.LTXPath(0, ltx.TXID(n+1), ltx.TXID(n+1))+".tmp", []byte{1})
	}
	if vx.Fault("junk") {
		vx.FSWriteFile(l0+"/README", []byte{1})
		vx.FSWriteFile(l0+"/000000000000000g-000000000000000g.ltx", []byte{1})
		vx.FSWriteFile(l0+"/0000000000000009-0000000000000009.ltx.bak", []byte{1})
	}
	min, max, err := db.MaxLTX()
	vx.Assert("maxltx-is-highest-parsing-name", err == nil && int(max) == n && int(min) == n)
}

// VxC02Snapshot: the snapshot's content is the database at the advertised position.
func VxC02Snapshot() {
	w := vxSnapshotWorld()
	defer w.db.f.Close()
	// the newest level-0 file may be unreadable for a moment (a corrupt file, a race
	// with a reset): the attempt fails, and must leave nothing locked behind
	if vx.Fault("newestL0Unreadable") {
		// (the position itself is still known: it was cached by the last sync)
		p := ltx.Pos{TXID: w.pos}
		w.db.pos.value = &p
		vx.FSWriteFile(w.db.LTXPath(0, w.pos, w.pos), []byte("not an ltx file"))
		w.db.syncState = syncState{}
	}
	pos, rc, err := w.db.SnapshotReader(context.Background())
	if err != nil {
		// refusing is always allowed: nothing is published - but a refused attempt
		// must not keep the checkpoint lock (checkpoints would be skipped for good)
		vx.Assert("failed-snapshot-attempt-leaves-checkpoint-lock-free", w.db.chkMu.TryLock())
		return
	}
	data, rerr := io.ReadAll(rc)
	_ = rc.Close()
	if rerr != nil {
		return // the reader reported an error instead of a snapshot: nothing is published
	}
	vx.Assert("snapshot-advertises-local-position", pos.TXID == w.pos)
	snap, derr := vxDecodeLTX(data)
	vx.Assert("snapshot-decodes", derr == nil)
	if derr != nil {
		return
	}
	vx.Assert("snapshot-range-is-1-to-pos", snap.min == 1 && snap.max == w.pos)
	vx.Assert("snapshot-size-is-size-at-pos", snap.commit == w.sizePos)
	n := int(w.sizePos)
	ok := len(snap.pages) == n
	for i := 0; ok && i < n; i++ {
		ok = snap.pages[i].pgno == uint32(i+1)
	}
	vx.Assert("snapshot-holds-every-page-once", ok)
	if !ok {
		return
	}
	for i := 0; i < n; i++ {
		vx.Assert("page-image-is-the-one-at-pos", snap.pages[i].tag == w.atPos[i])
	}
	vx.Assert("checkpoint-lock-released-after-read", w.db.chkMu.TryLock())
	w.db.chkMu.Unlock()
}
