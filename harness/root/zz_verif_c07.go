package litestream

// C07 harness: one retention pass (and the cascade) from an arbitrary replica
// state satisfying the representation invariant R-REP (DESIGN.md D.3), with file
// ages placed freely around the thresholds. TXID structure is concrete (every
// layout within the bound is enumerated); ages, and therefore which files are
// deleted, are symbolic.

import (
	"context"
	"log/slog"
	"time"

	"github.com/benbjohnson/litestream/internal/vx"
	"github.com/superfly/ltx"
)

// vxRepClient is a replica holding a mutable set of files.
type vxRepClient struct {
	ReplicaClient
	files   []*ltx.FileInfo
	deletes int // DeleteLTXFiles calls
	// onList, when set, runs once inside the next listing call: what another
	// goroutine does while that request is in flight
	onList func()
	// base: the one instant file ages are counted back from (two calls of time.Now
	// differ natively, so equal ages would not be equal instants)
	base time.Time
}

func (c *vxRepClient) Type() string { return "vx" }

func (c *vxRepClient) SetLogger(*slog.Logger) {}

func (c *vxRepClient) Init(ctx context.Context) error { return nil }

func (c *vxRepClient) LTXFiles(ctx context.Context, level int, seek ltx.TXID, useMetadata bool) (ltx.FileIterator, error) {
	var a []*ltx.FileInfo
	for _, f := range c.files {
		if f.Level == level && f.MinTXID >= seek {
			a = append(a, f)
		}
	}
	// the reply is on its way back when the other goroutine acts
	if h := c.onList; h != nil {
		c.onList = nil
		h()
	}
	return ltx.NewFileInfoSliceIterator(a), nil
}

func (c *vxRepClient) DeleteLTXFiles(ctx context.Context, a []*ltx.FileInfo) error {
	c.deletes++
	for _, d := range a {
		var keep []*ltx.FileInfo
		for _, f := range c.files {
			if !(f.Level == d.Level && f.MinTXID == d.MinTXID && f.MaxTXID == d.MaxTXID) {
				keep = append(keep, f)
			}
		}
		c.files = keep
	}
	return nil
}

func (c *vxRepClient) level(l int) []*ltx.FileInfo {
	var a []*ltx.FileInfo
	for _, f := range c.files {
		if f.Level == l {
			a = append(a, f)
		}
	}
	// files are appended in TXID order per level by the generator and deletion keeps order
	return a
}

func (c *vxRepClient) add(level, min, max int) {
	age := vx.Range("age", 0, 20)
	if c.base.IsZero() {
		c.base = time.Now()
	}
	// CreatedAt = now - age - 0.5 s; retention thresholds below are 10 s, so ages
	// 0..20 fall on both sides of every threshold
	c.files = append(c.files, &ltx.FileInfo{Level: level, MinTXID: ltx.TXID(min), MaxTXID: ltx.TXID(max), Size: 4096,
		CreatedAt: vx.TimeAgo(c.base, age)})
}

// vxGenReplica enumerates replica layouts up to TXID n that satisfy R-REP.
// Returns the client and whether a snapshot exists.
func vxGenReplica(n int) (*vxRepClient, int) {
	c := &vxRepClient{}
	// snapshots (1..s), ascending, at most two
	nsnap := vx.Choose("nsnap", 0, 2)
	smin, prev := 0, 0
	for i := 0; i < nsnap; i++ {
		s := vx.Choose("snap", prev+1, n)
		if i == 0 {
			smin = s
		}
		prev = s
		c.add(SnapshotLevel, 1, s)
	}
	floorOK := func(a, m int) bool { // level run a..m is usable or irrelevant w.r.t. the oldest snapshot
		if nsnap == 0 {
			return a == 1
		}
		return a <= smin+1 || m <= smin
	}
	// level 2: at most one file
	if vx.Fault("haveL2") {
		a := vx.Choose("l2min", 1, n)
		m := vx.Choose("l2max", a, n)
		vx.Assume(floorOK(a, m))
		c.add(2, a, m)
	}
	// level 1: at most two contiguous files
	m1 := 0
	k1 := vx.Choose("nl1", 0, 2)
	if k1 > 0 {
		a := vx.Choose("l1min", 1, n)
		b := vx.Choose("l1b", a, n)
		m1 = b
		if k1 == 2 {
			vx.Assume(b < n)
			m1 = vx.Choose("l1max", b+1, n)
		}
		vx.Assume(floorOK(a, m1))
		c.add(1, a, b)
		if k1 == 2 {
			c.add(1, b+1, m1)
		}
	}
	// level 0: contiguous single-TXID files a0..n
	a0 := vx.Choose("l0min", 1, n)
	if m1 > 0 {
		vx.Assume(a0 <= m1+1)
	} else {
		vx.Assume(floorOK(a0, n))
	}
	for t := a0; t <= n; t++ {
		c.add(0, t, t)
	}
	return c, nsnap
}

func vxNewRetentionDB(c *vxRepClient) *DB {
	db := NewDB("/data/db")
	db.Replica = NewReplicaWithClient(db, c)
	db.compactor.client = c
	db.RetentionEnabled = vx.Fault("retentionDisabled") == false
	db.compactor.RetentionEnabled = db.RetentionEnabled
	return db
}

// vxCheckReplicaAfter states C07's post-conditions on the surviving set.
func vxCheckReplicaAfter(c *vxRepClient, n int, hadSnap int, nBefore int, retentionEnabled bool) {
	if !retentionEnabled {
		vx.Assert("no-remote-delete-when-disabled", c.deletes == 0 && len(c.files) == nBefore)
	}
	// latest TXID still restorable through the real planner
	plan, err := CalcRestorePlan(context.Background(), &vxPlanClient{files: c.files}, 0, time.Time{}, vxLogger())
	vx.Assert("latest-still-restorable", err == nil && len(plan) > 0 && int(plan[len(plan)-1].MaxTXID) == n)
	if hadSnap > 0 {
		vx.Assert("a-snapshot-remains", len(c.level(SnapshotLevel)) >= 1)
	}
	// level 0 survivors: one contiguous run ending at the newest TXID
	l0 := c.level(0)
	ok := len(l0) > 0 && int(l0[len(l0)-1].MaxTXID) == n
	for i := 1; i < len(l0); i++ {
		if l0[i].MinTXID != l0[i-1].MaxTXID+1 {
			ok = false
		}
	}
	vx.Assert("l0-contiguous-suffix", ok)
	vx.Observe("files", uint64(len(c.files)))
}

// VxC07SnapshotCascade: Store.EnforceSnapshotRetention = snapshot retention by age
// followed by deletion below the oldest kept snapshot at every level >= 1.
func VxC07SnapshotCascade() {
	n := vx.Param("N", 4)
	c, nsnap := vxGenReplica(n)
	db := vxNewRetentionDB(c)
	s := &Store{levels: CompactionLevels{{Level: 0}, {Level: 1, Interval: time.Minute}, {Level: 2, Interval: time.Hour}}, SnapshotRetention: 10 * time.Second}
	before := len(c.files)
	err := s.EnforceSnapshotRetention(context.Background(), db)
	vx.Assert("retention-no-error", err == nil)
	vxCheckReplicaAfter(c, n, nsnap, before, db.RetentionEnabled)
}

// VxC07L0ByTime: DB.EnforceL0RetentionByTime (what runs after every L1 compaction).
func VxC07L0ByTime() {
	n := vx.Param("N", 4)
	c, nsnap := vxGenReplica(n)
	db := vxNewRetentionDB(c)
	db.L0Retention = 10 * time.Second
	// The DB's cached "newest level-0 file" is whatever a running process can hold:
	// nothing (or, equivalently for this code, the newest replicated file), or a
	// local file that has not been uploaded yet (DB.Sync runs more often than
	// Replica.Sync).
	newestLocal := n
	if vx.Fault("localAhead") {
		db.maxLTXFileInfos.m[0] = &ltx.FileInfo{Level: 0, MinTXID: ltx.TXID(n + 1), MaxTXID: ltx.TXID(n + 1)}
		newestLocal = n + 1
	}
	// the local level-0 directory holds what the replica's level 0 holds (plus the
	// file not uploaded yet); the pass also cleans up there, and the newest local
	// file is where the next sync reads its position from
	vx.FSMkdirAll(db.LTXLevelDir(0))
	for _, f := range c.level(0) {
		vx.FSWriteFile(db.LTXPath(0, f.MinTXID, f.MaxTXID), []byte("ltx"))
	}
	vx.FSWriteFile(db.LTXPath(0, ltx.TXID(newestLocal), ltx.TXID(newestLocal)), []byte("ltx"))
	before := len(c.files)
	err := db.EnforceL0RetentionByTime(context.Background())
	vx.Assert("retention-no-error", err == nil)
	vx.Assert("newest-local-file-survives-the-pass", vx.FSExists(db.LTXPath(0, ltx.TXID(newestLocal), ltx.TXID(newestLocal))))
	vxCheckReplicaAfter(c, n, nsnap, before, db.RetentionEnabled)
}

// VxC07Compactor: the Compactor's own retention entry points (used by the VFS
// compactor): snapshot retention, cascade by TXID, level-0 retention.
func VxC07Compactor() {
	n := vx.Param("N", 4)
	c, nsnap := vxGenReplica(n)
	comp := NewCompactor(c, vxLogger())
	comp.RetentionEnabled = vx.Fault("retentionDisabled") == false
	before := len(c.files)
	ctx := context.Background()
	minTXID, err := comp.EnforceSnapshotRetention(ctx, 10*time.Second)
	vx.Assert("retention-no-error", err == nil)
	for _, lvl := range []int{1, 2} {
		err = comp.EnforceRetentionByTXID(ctx, lvl, minTXID)
		vx.Assert("retention-no-error", err == nil)
	}
	err = comp.EnforceL0Retention(ctx, 10*time.Second)
	vx.Assert("retention-no-error", err == nil)
	vxCheckReplicaAfter(c, n, nsnap, before, comp.RetentionEnabled)
}

// VxC07Sequence: both passes one after the other on the same replica (the order
// the store runs them in: L0 retention after an L1 compaction, snapshot cascade on
// its own schedule), so that the first pass's output is the second one's input.
func VxC07Sequence() {
	n := vx.Param("N", 4)
	c, nsnap := vxGenReplica(n)
	db := vxNewRetentionDB(c)
	db.L0Retention = 10 * time.Second
	s := &Store{levels: CompactionLevels{{Level: 0}, {Level: 1, Interval: time.Minute}, {Level: 2, Interval: time.Hour}}, SnapshotRetention: 10 * time.Second}
	before := len(c.files)
	ctx := context.Background()
	if vx.Fault("l0first") {
		vx.Assert("retention-no-error", db.EnforceL0RetentionByTime(ctx) == nil)
		vx.Assert("retention-no-error", s.EnforceSnapshotRetention(ctx, db) == nil)
	} else {
		vx.Assert("retention-no-error", s.EnforceSnapshotRetention(ctx, db) == nil)
		vx.Assert("retention-no-error", db.EnforceL0RetentionByTime(ctx) == nil)
	}
	vxCheckReplicaAfter(c, n, nsnap, before, db.RetentionEnabled)
}
