package litestream

// C06 harness: one compaction step from an arbitrary level layout satisfying the
// representation invariant R-LVL (DESIGN.md D.3), through the real
// Compactor.Compact, the real ltx.Compactor and the real ltx encoder/decoder
// (only lz4 and crc64 are modelled). Page numbers, page contents, commit sizes
// and header timestamps of the inputs are symbolic.

import (
	"bytes"
	"context"
	"errors"
	"io"
	"time"

	"github.com/benbjohnson/litestream/internal/vx"
	"github.com/superfly/ltx"
)

const vxPageSize = 512

type vxPg struct {
	pgno uint32
	tag  uint64 // stands for the page image (first 8 bytes of the page)
}

type vxLTX struct {
	level    int
	min, max ltx.TXID
	commit   uint32
	ts       int64 // header timestamp, ms
	pages    []vxPg
}

func vxPageBytes(tag uint64) []byte {
	b := make([]byte, vxPageSize)
	for i := 0; i < 8; i++ {
		b[i] = byte(tag >> (56 - 8*i))
	}
	return b
}

func vxTagOf(b []byte) uint64 {
	var t uint64
	for i := 0; i < 8; i++ {
		t = t<<8 | uint64(b[i])
	}
	return t
}

// vxEncodeLTX writes f through the real encoder.
func vxEncodeLTX(f *vxLTX) []byte {
	var buf bytes.Buffer
	enc, err := ltx.NewEncoder(&buf)
	if err != nil {
		panic(err)
	}
	if err := enc.EncodeHeader(ltx.Header{Version: ltx.Version, Flags: ltx.HeaderFlagNoChecksum, PageSize: vxPageSize,
		Commit: f.commit, MinTXID: f.min, MaxTXID: f.max, Timestamp: f.ts}); err != nil {
		panic(err)
	}
	for _, p := range f.pages {
		if err := enc.EncodePage(ltx.PageHeader{Pgno: p.pgno}, vxPageBytes(p.tag)); err != nil {
			panic(err)
		}
	}
	if err := enc.Close(); err != nil {
		panic(err)
	}
	return buf.Bytes()
}

// vxDecodeLTX reads a file through the real decoder.
func vxDecodeLTX(data []byte) (*vxLTX, error) {
	dec := ltx.NewDecoder(bytes.NewReader(data))
	if err := dec.DecodeHeader(); err != nil {
		return nil, err
	}
	h := dec.Header()
	f := &vxLTX{min: h.MinTXID, max: h.MaxTXID, commit: h.Commit, ts: h.Timestamp}
	buf := make([]byte, h.PageSize)
	for {
		var ph ltx.PageHeader
		if err := dec.DecodePage(&ph, buf); err == io.EOF {
			break
		} else if err != nil {
			return nil, err
		}
		f.pages = append(f.pages, vxPg{pgno: ph.Pgno, tag: vxTagOf(buf)})
	}
	if err := dec.Close(); err != nil {
		return nil, err
	}
	return f, nil
}

// vxStoreClient is a replica that keeps file contents.
type vxStoreClient struct {
	vxRepClient
	data   map[[3]uint64][]byte
	writes int
	opened [][3]uint64
	// listBreaks: a listing may break off after its first entry (a later page of a
	// paginated listing cannot be fetched); only Err() and Close() report it
	listBreaks bool
}

func vxKey(level int, min, max ltx.TXID) [3]uint64 {
	return [3]uint64{uint64(level), uint64(min), uint64(max)}
}

func (c *vxStoreClient) put(f *vxLTX) {
	if c.data == nil {
		c.data = map[[3]uint64][]byte{}
	}
	b := vxEncodeLTX(f)
	c.data[vxKey(f.level, f.min, f.max)] = b
	c.files = append(c.files, &ltx.FileInfo{Level: f.level, MinTXID: f.min, MaxTXID: f.max, Size: int64(len(b))})
}

func (c *vxStoreClient) LTXFiles(ctx context.Context, level int, seek ltx.TXID, useMetadata bool) (ltx.FileIterator, error) {
	itr, err := c.vxRepClient.LTXFiles(ctx, level, seek, useMetadata)
	if err == nil && c.listBreaks && vx.Fault("listBreaksOff") {
		return &vxBreakingIterator{FileIterator: itr, left: 1}, nil
	}
	return itr, err
}

func (c *vxStoreClient) OpenLTXFile(ctx context.Context, level int, minTXID, maxTXID ltx.TXID, offset, size int64) (io.ReadCloser, error) {
	b, ok := c.data[vxKey(level, minTXID, maxTXID)]
	if !ok {
		return nil, errors.New("vx: no such ltx file")
	}
	c.opened = append(c.opened, vxKey(level, minTXID, maxTXID))
	return io.NopCloser(bytes.NewReader(b[offset:])), nil
}

func (c *vxStoreClient) WriteLTXFile(ctx context.Context, level int, minTXID, maxTXID ltx.TXID, r io.Reader) (*ltx.FileInfo, error) {
	b, err := io.ReadAll(r)
	if err != nil {
		return nil, err
	}
	c.writes++
	if c.data == nil {
		c.data = map[[3]uint64][]byte{}
	}
	c.data[vxKey(level, minTXID, maxTXID)] = b
	info := &ltx.FileInfo{Level: level, MinTXID: minTXID, MaxTXID: maxTXID, Size: int64(len(b))}
	c.files = append(c.files, info)
	return info, nil
}

// vxGenSource builds one source file: commit in 1..maxCommit, up to two pages with
// ascending page numbers inside the commit size; a full snapshot when min == 1.
func vxGenSource(level int, min, max ltx.TXID, maxCommit uint32, ts int64) *vxLTX {
	return vxGenSourceAfter(level, min, max, maxCommit, ts, 0, false)
}

// vxGenSourceAfter: with growthComplete the file holds every page of the growth
// range (prevCommit, commit] (what litestream's writer guarantees, C01.3/C17) plus
// at most one rewritten older page; a chain that starts at TXID 1 must be built
// this way because its compaction is a snapshot and the encoder demands all pages.
func vxGenSourceAfter(level int, min, max ltx.TXID, maxCommit uint32, ts int64, prevCommit uint32, growthComplete bool) *vxLTX {
	f := &vxLTX{level: level, min: min, max: max, ts: ts}
	f.commit = uint32(vx.Range("commit", 1, uint64(maxCommit)))
	if min == 1 {
		// a file starting at TXID 1 is a snapshot: every page 1..commit, in order
		c := int(vx.Concrete(uint64(f.commit)))
		for p := 1; p <= c; p++ {
			f.pages = append(f.pages, vxPg{pgno: uint32(p), tag: vx.U64("tag")})
		}
		return f
	}
	if growthComplete {
		c := uint32(vx.Concrete(uint64(f.commit)))
		old := prevCommit
		if c < old {
			old = c
		}
		if vx.Fault("rewriteOld") || c <= prevCommit {
			p := uint32(vx.U64("pgno"))
			vx.Assume(vx.And(p >= 1, p <= old))
			f.pages = append(f.pages, vxPg{pgno: p, tag: vx.U64("tag")})
		}
		for p := prevCommit + 1; p <= c; p++ {
			f.pages = append(f.pages, vxPg{pgno: p, tag: vx.U64("tag")})
		}
		return f
	}
	np := vx.Choose("npages", 1, 2)
	var prev uint32
	for i := 0; i < np; i++ {
		p := uint32(vx.U64("pgno"))
		vx.Assume(vx.And(p > prev, p <= f.commit))
		f.pages = append(f.pages, vxPg{pgno: p, tag: vx.U64("tag")})
		prev = p
	}
	return f
}

// VxC06Compact: one Compact(dst) step.
func VxC06Compact() {
	k := vx.Param("K", 2)                 // source files available beyond the destination's end
	dst := vx.Param("DST", 1)             // destination level (source is dst-1)
	maxCommit := uint32(vx.Param("C", 3)) // database size bound, pages
	src := dst - 1
	c := &vxStoreClient{}
	ctx := context.Background()

	// R-LVL: the destination level is a contiguous run ending at a source boundary
	// (here: one earlier file a..b, or empty); the source level continues from b+1.
	a := ltx.TXID(vx.Choose("first", 1, 2))
	haveDst := vx.Fault("haveDst")
	next := a
	if haveDst {
		b := a + ltx.TXID(vx.Choose("dstspan", 0, 1))
		c.put(&vxLTX{level: dst, min: a, max: b, commit: 1, ts: 1000, pages: vxDstPages(a)})
		// the source files the earlier compaction consumed may or may not have been
		// removed by retention; keep one of them to check it is not compacted twice
		if vx.Fault("oldSourceStillThere") && a > 1 {
			c.put(vxGenSource(src, b, b, maxCommit, 900))
		}
		next = b + 1
	}
	nsrc := vx.Choose("nsrc", 0, k)
	var inputs []*vxLTX
	var ts int64 = 2000
	for i := 0; i < nsrc; i++ {
		span := ltx.TXID(0)
		if src > 0 {
			span = ltx.TXID(vx.Choose("srcspan", 0, 1))
		}
		ts += int64(vx.Range("dts", 0, 3))
		var prevCommit uint32
		gc := a == 1 && !haveDst && i > 0
		if gc {
			prevCommit = uint32(vx.Concrete(uint64(inputs[i-1].commit)))
		}
		f := vxGenSourceAfter(src, next, next+span, maxCommit, ts, prevCommit, gc)
		c.put(f)
		inputs = append(inputs, f)
		next = next + span + 1
	}

	comp := NewCompactor(c, vxLogger())
	cache := map[int]*ltx.FileInfo{}
	comp.CacheGetter = func(level int) (*ltx.FileInfo, bool) { info, ok := cache[level]; return info, ok }
	comp.CacheSetter = func(level int, info *ltx.FileInfo) { cache[level] = info }
	if haveDst && vx.Fault("cacheWarm") {
		for _, f := range c.files {
			if f.Level == dst {
				cache[dst] = f
			}
		}
	}
	writesBefore := c.writes
	info, err := comp.Compact(ctx, dst)

	if nsrc == 0 {
		vx.Assert("nothing-new-no-compaction", errors.Is(err, ErrNoCompaction) && c.writes == writesBefore)
		return
	}
	vx.Assert("compaction-succeeds", err == nil && info != nil)
	if err != nil || info == nil {
		return
	}
	first, last := inputs[0], inputs[len(inputs)-1]
	// the new file starts where the level ended and ends at the newest source file
	vx.Assert("range-continues-level", info.Level == dst && info.MinTXID == first.min && info.MaxTXID == last.max)
	vx.Assert("one-write", c.writes == writesBefore+1)
	// inputs opened: exactly the new source files, in TXID order
	okOpen := len(c.opened) == len(inputs)
	for i := 0; okOpen && i < len(inputs); i++ {
		okOpen = c.opened[i] == vxKey(src, inputs[i].min, inputs[i].max)
	}
	vx.Assert("inputs-are-new-files-in-order", okOpen)
	// cache equals the written file
	ci, ok := cache[dst]
	vx.Assert("cache-is-written-file", ok && ci.MinTXID == info.MinTXID && ci.MaxTXID == info.MaxTXID)
	// level stays contiguous / non-overlapping (the compactor's own verifier agrees)
	vx.Assert("level-contiguous", comp.VerifyLevelConsistency(ctx, dst) == nil)

	// content: decode the written file with the real decoder
	out, derr := vxDecodeLTX(c.data[vxKey(dst, info.MinTXID, info.MaxTXID)])
	vx.Assert("output-decodes", derr == nil)
	if derr != nil {
		return
	}
	vx.Assert("output-header", out.min == first.min && out.max == last.max)
	vx.Assert("output-commit-is-last-inputs", out.commit == last.commit)
	vx.Assert("output-timestamp-is-newest-inputs", out.ts == last.ts)

	// witness page q: present iff q <= final commit and some input holds q, with
	// the image of the last input that holds it
	q := uint32(vx.U64("q"))
	vx.Assume(q >= 1)
	var want uint64
	have := false
	for _, f := range inputs {
		for _, p := range f.pages {
			hit := p.pgno == q
			want = vx.IteU64(hit, p.tag, want)
			have = vx.Or(have, hit)
		}
	}
	have = vx.And(have, q <= last.commit)
	var got uint64
	found := false
	var prevPg uint32
	ascending := true
	for _, p := range out.pages {
		hit := p.pgno == q
		got = vx.IteU64(hit, p.tag, got)
		found = vx.Or(found, hit)
		ascending = vx.And(ascending, p.pgno > prevPg)
		prevPg = p.pgno
	}
	vx.Assert("witness-page-present-iff-held", found == have)
	vx.Assert("witness-page-is-latest-version", vx.Implies(have, got == want))
	vx.Assert("output-pages-ascending", ascending)

	// equivalence with applying the inputs in order, when growth is complete
	// (a file that grows the database holds every page of the growth range: what
	// the writer guarantees, decided by C01.3/C17)
	var img uint64
	present := false
	complete := true
	var size uint32
	for i, f := range inputs {
		holds := false
		var tag uint64
		for _, p := range f.pages {
			hit := p.pgno == q
			holds = vx.Or(holds, hit)
			tag = vx.IteU64(hit, p.tag, tag)
		}
		if i > 0 {
			grew := vx.And(q > size, q <= f.commit)
			complete = vx.And(complete, vx.Implies(grew, holds))
		}
		img = vx.IteU64(holds, tag, img)
		present = vx.And(vx.Or(present, holds), q <= f.commit)
		size = f.commit
	}
	vx.Assert("equals-ordered-application", vx.Implies(complete, vx.And(found == present, vx.Implies(present, got == img))))
	vx.Observe("outpages", uint64(len(out.pages)))
}

func vxDstPages(min ltx.TXID) []vxPg {
	if min == 1 {
		return []vxPg{{pgno: 1, tag: 7}}
	}
	return []vxPg{{pgno: 1, tag: 7}}
}

// VxC06DBCompact: DB.Compact(1) as the store calls it - the DB's own compactor
// with its local-file hooks wired by NewDB, followed by level-0 retention - in a
// world where the local level-0 directory and the replica differ the ways they do
// in practice: the local directory holds only a suffix of what the replica holds
// (after a reset or a restore the baseline is the replica's newest file), and may
// be one file ahead of the replica (DB.Sync runs more often than Replica.Sync).
// The new level-1 file must start where level 1 ended, end at the newest
// replicated file, equal the replica's level-0 files applied in order, and the
// retention pass that follows must keep the newest state restorable.
// VxC06Backlog: one compaction over a long backlog of source files (compaction was
// down for a while, a burst of small transactions): whatever a pass decides to take,
// the file it writes holds exactly the sources of the range in its name, applied
// in order, and the passes that follow complete the level without gap or overlap
// (every pass makes progress until nothing is left).
func VxC06Backlog() {
	n := vx.Param("N", 300)
	c := &vxStoreClient{}
	c.put(&vxLTX{level: 0, min: 1, max: 1, commit: 2, ts: 1000, pages: []vxPg{{pgno: 1, tag: 1}, {pgno: 2, tag: 1}}})
	tags := make([]uint64, n+2)
	tags[1] = 1
	for t := 2; t <= n+1; t++ {
		// page 1 is rewritten by every transaction; the images of the last few are symbolic
		tag := uint64(t)
		if t > n-2 {
			tag = vx.U64("tag")
		}
		tags[t] = tag
		c.put(&vxLTX{level: 0, min: ltx.TXID(t), max: ltx.TXID(t), commit: 2, ts: int64(1000 + t), pages: []vxPg{{pgno: 1, tag: tag}}})
	}
	comp := NewCompactor(c, vxLogger())
	cache := map[int]*ltx.FileInfo{}
	comp.CacheGetter = func(level int) (*ltx.FileInfo, bool) { info, ok := cache[level]; return info, ok }
	comp.CacheSetter = func(level int, info *ltx.FileInfo) { cache[level] = info }
	ctx := context.Background()
	next := ltx.TXID(1)
	// (how many files one pass takes is the implementation's business; each pass must
	// take at least one while sources remain)
	for pass := 0; pass <= n && int(next) <= n+1; pass++ {
		info, err := comp.Compact(ctx, 1)
		vx.Assert("backlog-pass-succeeds", err == nil && info != nil)
		if err != nil || info == nil {
			return
		}
		vx.Assert("backlog-pass-continues-the-level", info.MinTXID == next && info.MaxTXID >= next && int(info.MaxTXID) <= n+1)
		out, derr := vxDecodeLTX(c.data[vxKey(1, info.MinTXID, info.MaxTXID)])
		vx.Assert("backlog-output-decodes", derr == nil)
		if derr != nil {
			return
		}
		// the file named a..b is what applying a..b in order gives: page 1 as b wrote it
		ok := out.min == info.MinTXID && out.max == info.MaxTXID && len(out.pages) >= 1 && out.pages[0].pgno == 1 &&
			out.pages[0].tag == tags[int(info.MaxTXID)] && out.ts == int64(1000+int(info.MaxTXID))
		vx.Assert("backlog-output-is-the-ordered-application-of-its-range", ok)
		next = info.MaxTXID + 1
	}
	vx.Assert("backlog-drained", int(next) == n+2)
	vx.Assert("level-contiguous", comp.VerifyLevelConsistency(ctx, 1) == nil)
}

// VxC06LevelEnd: the newest file of a level - where every compaction into and out
// of that level continues - as the DB reads it through its per-level cache, while
// the listing that fills the cache may break off part-way. An end taken from a
// partial listing would make the next compaction start in the middle of the level.
func VxC06LevelEnd() {
	k := vx.Param("K", 3)
	dir := vx.TempDir()
	db := NewDB(dir + "/app.db")
	c := &vxStoreClient{}
	for i := 0; i < k; i++ {
		f := &vxLTX{level: 1, min: ltx.TXID(2*i + 1), max: ltx.TXID(2*i + 2), commit: 2, ts: int64(1000 + i), pages: []vxPg{{pgno: 1, tag: uint64(i + 1)}}}
		if i == 0 {
			f.pages = []vxPg{{pgno: 1, tag: 1}, {pgno: 2, tag: 1}}
		}
		c.put(f)
	}
	c.put(&vxLTX{level: 2, min: 1, max: 2, commit: 2, ts: 1000, pages: []vxPg{{pgno: 1, tag: 1}, {pgno: 2, tag: 1}}})
	db.Replica = NewReplicaWithClient(db, c)
	db.compactor.client = c
	ctx := context.Background()
	c.listBreaks = true
	info, err := db.MaxLTXFileInfo(ctx, 1)
	c.listBreaks = false
	vx.Assert("level-end-is-taken-only-from-a-complete-listing", err != nil || int(info.MaxTXID) == 2*k)
	info, err = db.MaxLTXFileInfo(ctx, 1)
	vx.Assert("level-end-known-once-the-listing-works", err == nil && int(info.MaxTXID) == 2*k)
	out, cerr := db.Compact(ctx, 2)
	vx.Assert("next-level-continues-to-the-level-end", cerr == nil && out != nil && out.MinTXID == 3 && int(out.MaxTXID) == 2*k)
	vx.Assert("level-2-contiguous", db.compactor.VerifyLevelConsistency(ctx, 2) == nil)
}

func VxC06DBCompact() {
	n := vx.Param("N", 3)
	dir := vx.TempDir()
	db := NewDB(dir + "/app.db")
	c := &vxStoreClient{}
	r := vx.Choose("replicated", 2, n) // the replica holds level 0 = 1..r
	var files []*vxLTX
	for t := 1; t <= r+1; t++ {
		f := &vxLTX{level: 0, min: ltx.TXID(t), max: ltx.TXID(t), commit: 2, ts: int64(1000 + t), pages: []vxPg{{pgno: 1, tag: vx.U64("tag")}}}
		if t == 1 {
			f.pages = []vxPg{{pgno: 1, tag: vx.U64("tag")}, {pgno: 2, tag: vx.U64("tag2")}}
		}
		files = append(files, f)
		if t <= r {
			c.put(f)
		}
	}
	// level 1 already covers 1..a (a = 0: no level-1 file yet)
	a := vx.Choose("compacted", 0, r-1)
	if a > 0 {
		c.put(&vxLTX{level: 1, min: 1, max: ltx.TXID(a), commit: 2, ts: int64(1000 + a),
			pages: []vxPg{{pgno: 1, tag: files[a-1].pages[0].tag}, {pgno: 2, tag: files[0].pages[1].tag}}})
	}
	// local directory: files s..m with 1 <= s <= r and m in {r, r+1}
	s := vx.Choose("localFrom", 1, r)
	m := r
	if vx.Fault("localAhead") {
		m = r + 1
	}
	vx.FSMkdirAll(db.LTXLevelDir(0))
	for t := s; t <= m; t++ {
		vx.FSWriteFile(db.LTXPath(0, ltx.TXID(t), ltx.TXID(t)), vxEncodeLTX(files[t-1]))
	}
	db.Replica = NewReplicaWithClient(db, c)
	db.compactor.client = c
	if vx.Fault("posCached") {
		db.Replica.SetPos(ltx.Pos{TXID: ltx.TXID(r)})
	}
	db.L0Retention = 10 * time.Second
	for _, f := range c.files {
		f.CreatedAt = vx.TimeAgo(time.Now(), vx.Range("age", 0, 20))
	}
	ctx := context.Background()
	info, err := db.Compact(ctx, 1)
	vx.Assert("db-compaction-succeeds", err == nil && info != nil)
	if err != nil || info == nil {
		return
	}
	vx.Assert("db-compaction-continues-level-1", info.Level == 1 && int(info.MinTXID) == a+1 && int(info.MaxTXID) == r)
	out, derr := vxDecodeLTX(c.data[vxKey(1, info.MinTXID, info.MaxTXID)])
	vx.Assert("db-compaction-output-decodes", derr == nil)
	if derr != nil {
		return
	}
	// equals the replica's level-0 files a+1..r applied in order
	want1 := files[r-1].pages[0].tag
	ok := out.commit == 2 && len(out.pages) >= 1 && out.pages[0].pgno == 1 && out.pages[0].tag == want1
	if a == 0 {
		ok = ok && len(out.pages) == 2 && out.pages[1].pgno == 2 && out.pages[1].tag == files[0].pages[1].tag
	} else {
		ok = ok && len(out.pages) == 1
	}
	vx.Assert("db-compaction-equals-ordered-application", ok)
	vx.Assert("level-1-contiguous", db.compactor.VerifyLevelConsistency(ctx, 1) == nil)
	// after the retention pass that DB.Compact runs: the newest replicated state is
	// still restorable and level 0 is a contiguous run ending at the newest file
	plan, perr := CalcRestorePlan(ctx, &vxPlanClient{files: c.files}, 0, time.Time{}, vxLogger())
	vx.Assert("latest-still-restorable", perr == nil && len(plan) > 0 && int(plan[len(plan)-1].MaxTXID) == r)
	l0 := c.level(0)
	okRun := len(l0) > 0 && int(l0[len(l0)-1].MaxTXID) == r
	for i := 1; i < len(l0); i++ {
		if l0[i].MinTXID != l0[i-1].MaxTXID+1 {
			okRun = false
		}
	}
	vx.Assert("l0-contiguous-suffix", okRun)
}

// VxC06CacheRace: the per-level "newest file" cache under the one interleaving the
// store's level monitors produce at start-up: the level-2 monitor looks up the
// newest level-1 file on a cold cache (a listing request), and while that request
// is in flight the level-1 monitor finishes a compaction and records its new file
// in the cache. The other goroutine can only do so if the cache is not locked
// during the listing - the harness asks with TryLock, which is how the unchanged
// code excludes the interleaving. Afterwards the cache must still name the newest
// level-1 file and the next compaction must continue the level.
func VxC06CacheRace() {
	dir := vx.TempDir()
	db := NewDB(dir + "/app.db")
	c := &vxStoreClient{}
	var files []*vxLTX
	for t := 1; t <= 4; t++ {
		f := &vxLTX{level: 0, min: ltx.TXID(t), max: ltx.TXID(t), commit: 2, ts: int64(1000 + t), pages: []vxPg{{pgno: 1, tag: vx.U64("tag")}}}
		if t == 1 {
			f.pages = []vxPg{{pgno: 1, tag: vx.U64("tag")}, {pgno: 2, tag: vx.U64("tag2")}}
		}
		files = append(files, f)
	}
	c.put(files[0])
	c.put(files[1])
	c.put(&vxLTX{level: 1, min: 1, max: 1, commit: 2, ts: 1001, pages: []vxPg{{pgno: 1, tag: files[0].pages[0].tag}, {pgno: 2, tag: files[0].pages[1].tag}}})
	db.Replica = NewReplicaWithClient(db, c)
	db.compactor.client = c
	ctx := context.Background()
	raced := false
	c.onList = func() {
		if !db.maxLTXFileInfos.TryLock() {
			return // the cache is locked while the listing runs: nobody gets in
		}
		db.maxLTXFileInfos.Unlock()
		raced = true
		if _, err := db.Compact(ctx, 1); err != nil {
			panic(err)
		}
	}
	_, err := db.MaxLTXFileInfo(ctx, 1)
	c.onList = nil
	vx.Assert("lookup-succeeds", err == nil)
	vx.ObserveBool("raced", raced)
	// the primary moves on, the level-1 monitor compacts again
	c.put(files[2])
	_, cerr := db.Compact(ctx, 1)
	vx.Assert("next-compaction-succeeds", cerr == nil)
	vx.Assert("level-1-contiguous", db.compactor.VerifyLevelConsistency(ctx, 1) == nil)
	info, merr := db.MaxLTXFileInfo(ctx, 1)
	var max ltx.TXID
	for _, f := range c.files {
		if f.Level == 1 && f.MaxTXID > max {
			max = f.MaxTXID
		}
	}
	vx.Assert("cache-names-the-newest-level-1-file", merr == nil && info.MaxTXID == max && max == 3)
}
