package litestream

// C09 harness: the WAL reader against a reference model of SQLite's WAL
// recovery (DESIGN.md D.2). Every byte of the WAL image is symbolic except the
// page-size field. Injected by overlay; never part of the repository.

import (
	"context"
	"encoding/binary"
	"errors"
	"io"

	"github.com/benbjohnson/litestream/internal/vx"
)

// vxImage is an io.ReaderAt over a byte image with short reads at its end.
// vxImage is a WAL file. With hole > 0 the file is the header, then `hole` bytes
// that read as zeros (frames nobody looks at: a resume only reads the frame before
// its offset), then the frames of b: a WAL of several GiB without its bytes.
type vxImage struct {
	b    []byte
	hole int64
}

func (r *vxImage) ReadAt(p []byte, off int64) (int, error) {
	if r.hole > 0 && off >= 32 {
		if off < 32+r.hole {
			if off+int64(len(p)) > 32+r.hole {
				return 0, io.ErrUnexpectedEOF // a read straddling the hole's end: never issued on frame boundaries
			}
			for i := range p {
				p[i] = 0
			}
			return len(p), nil
		}
		off -= r.hole
	}
	if off >= int64(len(r.b)) {
		return 0, io.EOF
	}
	n := copy(p, r.b[off:])
	if n < len(p) {
		return n, io.EOF
	}
	return n, nil
}

func vxBE32(b []byte) uint32 {
	return uint32(b[0])<<24 | uint32(b[1])<<16 | uint32(b[2])<<8 | uint32(b[3])
}

func vxLE32(b []byte) uint32 {
	return uint32(b[3])<<24 | uint32(b[2])<<16 | uint32(b[1])<<8 | uint32(b[0])
}

func vxWord(be bool, b []byte) uint32 { return vx.IteU32(be, vxBE32(b), vxLE32(b)) }

// vxCk is the reference checksum step function (SQLite's walChecksumBytes).
func vxCk(be bool, s0, s1 uint32, b []byte) (uint32, uint32) {
	for i := 0; i+8 <= len(b); i += 8 {
		s0 += vxWord(be, b[i:i+4]) + s1
		s1 += vxWord(be, b[i+4:i+8]) + s0
	}
	return s0, s1
}

// vxWALRef is the reference recovery of a WAL image.
type vxWALRef struct {
	ps, fs  int
	n       int    // frames completely inside the image
	hdrOK   bool   // header acceptable (symbolic)
	be      bool   // checksum byte order
	salt1   uint32 // header salts
	salt2   uint32
	acc     []bool // frame i accepted (prefix-closed, symbolic)
	pgno    []uint32
	commit  []uint32
	off     []int64
	ck0     []uint32 // checksum stored in frame i
	ck1     []uint32
	fsalt1  []uint32
	fsalt2  []uint32
	chainOK []bool // frame i's stored checksum continues the chain from the previous stored one
}

// vxRecover decodes img by the rules of D.2. start is the first frame to scan;
// when start > 0 the chain is seeded with the checksum stored in frame start-1
// and frames must carry (a1,a2); when start == 0 the header supplies both.
func vxRecover(img []byte, ps int, start int, a1, a2 uint32) *vxWALRef {
	r := &vxWALRef{ps: ps, fs: 24 + ps}
	L := len(img)
	if L < 32 {
		r.hdrOK = false
		return r
	}
	// The byte order is decided by case split (three paths) so that every word
	// below is a plain concatenation of image bytes.
	magic := vxBE32(img[0:4])
	if magic == 0x377f0682 {
		r.be = false
	} else if magic == 0x377f0683 {
		r.be = true
	} else {
		r.hdrOK = false
		return r
	}
	h0, h1 := vxCk(r.be, 0, 0, img[0:24])
	r.hdrOK = vx.And(vx.And(h0 == vxBE32(img[24:28]), h1 == vxBE32(img[28:32])), vxBE32(img[4:8]) == 3007000)
	r.salt1, r.salt2 = vxBE32(img[16:20]), vxBE32(img[20:24])
	r.n = (L - 32) / r.fs
	s1, s2 := r.salt1, r.salt2
	c0, c1 := vxBE32(img[24:28]), vxBE32(img[28:32])
	if start > 0 {
		s1, s2 = a1, a2
	}
	prev := true
	for i := 0; i < r.n; i++ {
		o := 32 + i*r.fs
		f := img[o : o+r.fs]
		r.off = append(r.off, int64(o))
		r.pgno = append(r.pgno, vxBE32(f[0:4]))
		r.commit = append(r.commit, vxBE32(f[4:8]))
		r.fsalt1 = append(r.fsalt1, vxBE32(f[8:12]))
		r.fsalt2 = append(r.fsalt2, vxBE32(f[12:16]))
		r.ck0 = append(r.ck0, vxBE32(f[16:20]))
		r.ck1 = append(r.ck1, vxBE32(f[20:24]))
		if i < start {
			r.acc = append(r.acc, false)
			if i == start-1 {
				c0, c1 = r.ck0[i], r.ck1[i]
			}
			continue
		}
		c0, c1 = vxCk(r.be, c0, c1, f[0:8])
		c0, c1 = vxCk(r.be, c0, c1, f[24:])
		ok := vx.And(vx.And(r.fsalt1[i] == s1, r.fsalt2[i] == s2), vx.And(c0 == r.ck0[i], c1 == r.ck1[i]))
		prev = vx.And(prev, ok)
		r.acc = append(r.acc, prev)
	}
	return r
}

// included[i]: frame i is part of the scan result (accepted and not after a budget stop).
// Returns for a witness page q: whether q is mapped, its offset, the final size,
// the end offset and whether the last commit frame's own page is within the size.
func (r *vxWALRef) witness(q uint32, included []bool) (present bool, off int64, size uint32, end int64, lastPgOK bool, any bool) {
	n := r.n
	// commitAfter[j]: some included commit frame at index >= j
	commitAfter := make([]bool, n+1)
	commitAfter[n] = false
	for j := n - 1; j >= 0; j-- {
		commitAfter[j] = vx.Or(commitAfter[j+1], vx.And(included[j], r.commit[j] != 0))
	}
	var lastPg uint32
	for i := 0; i < n; i++ {
		isC := vx.And(included[i], r.commit[i] != 0)
		size = vx.IteU32(isC, r.commit[i], size)
		end = vx.IteI64(isC, r.off[i]+int64(r.fs), end)
		lastPg = vx.IteU32(isC, r.pgno[i], lastPg)
		any = vx.Or(any, isC)
	}
	for j := 0; j < n; j++ {
		hit := vx.And(vx.And(included[j], commitAfter[j]), r.pgno[j] == q)
		off = vx.IteI64(hit, r.off[j], off)
	}
	present = vx.And(off != 0, q <= size)
	lastPgOK = lastPg <= size
	return
}

// vxWALImage builds the symbolic image: concrete length (every frame boundary
// and two kinds of torn tails), concrete page-size field, everything else symbolic.
func vxWALImage(ps, k int) []byte {
	fs := 24 + ps
	// lengths: 20 (short header), then for each j<=k the boundary, and for j<k a torn header / torn page
	sel := vx.Choose("len", 0, 3*k+1)
	var L int
	switch {
	case sel == 0:
		L = 20
	case sel <= k+1:
		L = 32 + (sel-1)*fs
	case sel <= 2*k+1:
		L = 32 + (sel-k-2)*fs + 12
	default:
		L = 32 + (sel-2*k-2)*fs + 24 + ps - 1
	}
	img := vx.Bytes("wal", L)
	if L >= 12 {
		binary.BigEndian.PutUint32(img[8:12], uint32(ps))
	}
	return img
}

func vxAssumePgnoNonZero(r *vxWALRef) {
	// A-PG0: SQLite rejects page number 0; it never writes such a frame.
	for i := 0; i < r.n; i++ {
		vx.Assume(r.pgno[i] != 0)
	}
}

// VxC09PageMap: NewWALReader + PageMap against the reference, for a witness page.
func VxC09PageMap() {
	ps := vx.Param("PS", 8)
	k := vx.Param("K", 2)
	img := vxWALImage(ps, k)
	ref := vxRecover(img, ps, 0, 0, 0)
	vxAssumePgnoNonZero(ref)
	ctx := context.Background()
	rd, err := NewWALReader(&vxImage{b: img}, vxLogger())
	if err != nil {
		vx.Assert("reader-rejects-only-bad-header", vx.Not(ref.hdrOK))
		return
	}
	vx.Assert("reader-accepts-only-good-header", ref.hdrOK)
	m, end, commit, err := rd.PageMap(ctx)
	vx.Assert("pagemap-no-error", err == nil)
	if err != nil {
		return
	}
	q := vx.U32("q")
	present, off, size, refEnd, lastPgOK, any := ref.witness(q, ref.acc)
	got, ok := m[q]
	if ok {
		vx.Assert("page-mapped-only-if-committed", vx.And(present, got == off))
	} else {
		vx.Assert("committed-page-is-mapped", vx.Not(present))
	}
	if len(m) > 0 {
		vx.Assert("commit-size", vx.And(any, commit == size))
		vx.Assert("end-offset", vx.Implies(lastPgOK, end == refEnd))
	} else {
		vx.Assert("empty-map-zero", vx.And(commit == 0, end == 0))
	}
	vx.ObserveBool("mapped", ok)
	vx.Observe("entries", uint64(len(m)))
}

// VxC09ReadFrame: ReadFrame returns exactly the accepted prefix, then io.EOF.
func VxC09ReadFrame() {
	ps := vx.Param("PS", 8)
	k := vx.Param("K", 2)
	img := vxWALImage(ps, k)
	ref := vxRecover(img, ps, 0, 0, 0)
	ctx := context.Background()
	rd, err := NewWALReader(&vxImage{b: img}, vxLogger())
	if err != nil {
		vx.Assert("reader-rejects-only-bad-header", vx.Not(ref.hdrOK))
		return
	}
	data := make([]byte, ps)
	i := 0
	for ; i <= k; i++ {
		pgno, commit, err := rd.ReadFrame(ctx, data)
		if err != nil {
			vx.Assert("frame-error-is-eof", errors.Is(err, io.EOF))
			break
		}
		vx.Assert("frame-within-image", i < ref.n)
		if i >= ref.n {
			return
		}
		vx.Assert("returned-frame-is-accepted", vx.And(ref.acc[i], vx.And(pgno == ref.pgno[i], commit == ref.commit[i])))
		vx.Assert("reader-offset", rd.Offset() == ref.off[i])
		same := true
		for j := 0; j < ps; j++ {
			same = vx.And(same, data[j] == img[32+i*ref.fs+24+j])
		}
		vx.Assert("returned-page-bytes", same)
	}
	// the reader stopped at i: the reference must not accept frame i
	if i < ref.n {
		vx.Assert("stops-only-at-rejected-frame", vx.Not(ref.acc[i]))
	}
	// (Observation, not asserted: after a checksum failure the reader's running
	// checksum has advanced, so a second ReadFrame call is not guaranteed to fail
	// again. No caller retries after io.EOF, and the property does not ask for it.)
	vx.Observe("frames", uint64(i))
}

// VxC09Budget: pageMap(maxBytes) stops only at a commit frame, equals the
// reference on that prefix, and says so when it stopped before the end.
func VxC09Budget() {
	ps := vx.Param("PS", 8)
	k := vx.Param("K", 2)
	img := vxWALImage(ps, k)
	ref := vxRecover(img, ps, 0, 0, 0)
	vxAssumePgnoNonZero(ref)
	fs := int64(24 + ps)
	// budgets around every frame boundary
	bsel := vx.Choose("budget", 0, 2*k)
	maxBytes := int64(1)
	if bsel > 0 {
		maxBytes = fs*int64((bsel+1)/2) + int64(bsel%2) - 0
	}
	ctx := context.Background()
	rd, err := NewWALReader(&vxImage{b: img}, vxLogger())
	if err != nil {
		return
	}
	m, end, commit, limited, err := rd.pageMap(ctx, maxBytes)
	vx.Assert("pagemap-no-error", err == nil)
	if err != nil {
		return
	}
	// reference: the result is SQLite's recovery of some prefix of the WAL that ends
	// with an accepted commit frame (which one a bounded call picks is its own
	// business), for every page at once: compare the whole map, frame by frame.
	n := ref.n
	// hasOff[i]: the map sends frame i's page to frame i
	hasOff := make([]bool, n)
	entries := 0
	for i := 0; i < n; i++ {
		off, ok := m[ref.pgno[i]]
		hasOff[i] = vx.And(ok, off == ref.off[i])
	}
	_ = entries
	matchCut := func(j int) bool { // the map equals the recovery of frames 0..j-1
		ok := true
		if j > 0 {
			ok = vx.And(ref.acc[j-1], ref.commit[j-1] != 0)
		}
		var size uint32
		if j > 0 {
			size = ref.commit[j-1]
		}
		cnt := uint64(0)
		for i := 0; i < j; i++ {
			latest := true
			for i2 := i + 1; i2 < j; i2++ {
				latest = vx.And(latest, ref.pgno[i2] != ref.pgno[i])
			}
			want := vx.And(latest, ref.pgno[i] <= size)
			ok = vx.And(ok, hasOff[i] == want)
			cnt += vx.IteU64(want, 1, 0)
		}
		for i := j; i < n; i++ {
			// a later frame's offset must not be in the map
			ok = vx.And(ok, vx.Not(hasOff[i]))
		}
		ok = vx.And(ok, uint64(len(m)) == cnt)
		if j > 0 {
			ok = vx.And(ok, vx.Or(cnt == 0, commit == size))
		}
		return ok
	}
	some := false
	full := 0 // the last accepted commit frame overall
	var fullOK bool
	for j := 0; j <= n; j++ {
		mj := matchCut(j)
		some = vx.Or(some, mj)
		// is j the complete recovery? (no accepted commit frame at or after j)
		later := false
		for i := j; i < n; i++ {
			later = vx.Or(later, vx.And(ref.acc[i], ref.commit[i] != 0))
		}
		fullOK = vx.Or(fullOK, vx.And(mj, vx.Not(later)))
	}
	_ = full
	vx.Assert("map-is-the-recovery-of-a-prefix-ending-at-a-commit-frame", some)
	// a call that returns less than the complete recovery says so
	vx.Assert("incomplete-result-reports-limited", vx.Or(fullOK, limited))
	_ = end
	vx.ObserveBool("limited", limited)
}

// VxC09Resume: NewWALReaderWithOffset at every frame boundary.
func VxC09Resume() {
	ps := vx.Param("PS", 8)
	k := vx.Param("K", 2)
	img := vxWALImage(ps, k)
	fs := 24 + ps
	j := vx.Choose("resume", 0, k) // frame index to resume at (0 and unaligned are error cases)
	unaligned := vx.Fault("unaligned")
	a1, a2 := vx.U32("a1"), vx.U32("a2")
	offset := int64(32 + j*fs)
	if unaligned {
		offset += 8
	}
	// FAR > 0: the frames sit FAR frames into the file (beyond 4 GiB for FAR*fs >= 2^32)
	hole := int64(vx.Param("FAR", 0)) * int64(fs)
	if hole > 0 && j > 0 {
		offset += hole
	}
	ctx := context.Background()
	full := vxRecover(img, ps, 0, 0, 0)
	rd, err := NewWALReaderWithOffset(ctx, &vxImage{b: img, hole: hole}, offset, a1, a2, vxLogger())
	if j == 0 && !unaligned {
		vx.Assert("offset-at-header-rejected", err != nil)
		return
	}
	if err != nil {
		var pfm *PrevFrameMismatchError
		if errors.As(err, &pfm) {
			// the previous frame is missing or does not carry the given salts
			if j-1 < full.n && !unaligned {
				vx.Assert("prev-mismatch-justified", vx.Not(vx.And(full.fsalt1[j-1] == a1, full.fsalt2[j-1] == a2)))
			}
		} else if !unaligned {
			vx.Assert("other-error-only-for-bad-header", vx.Not(full.hdrOK))
		}
		return
	}
	vx.Assert("unaligned-offset-rejected", !unaligned)
	vx.Assert("resume-needs-good-header", full.hdrOK)
	vx.Assert("resume-needs-prev-frame", j-1 < full.n)
	if unaligned || j-1 >= full.n {
		return
	}
	vx.Assert("resume-needs-matching-prev-salts", vx.And(full.fsalt1[j-1] == a1, full.fsalt2[j-1] == a2))
	ref := vxRecover(img, ps, j, a1, a2)
	vxAssumePgnoNonZero(ref)
	m, end, commit, err := rd.PageMap(ctx)
	vx.Assert("pagemap-no-error", err == nil)
	if err != nil {
		return
	}
	q := vx.U32("q")
	present, off, size, refEnd, lastPgOK, any := ref.witness(q, ref.acc)
	got, ok := m[q]
	if ok {
		vx.Assert("page-mapped-only-if-committed", vx.And(present, got == off+hole))
	} else {
		vx.Assert("committed-page-is-mapped", vx.Not(present))
	}
	if len(m) > 0 {
		vx.Assert("commit-size", vx.And(any, commit == size))
		vx.Assert("end-offset", vx.Implies(lastPgOK, end == refEnd+hole))
	}
}

// VxC09Checksum: WALChecksum equals the two-line specification for 8..32 bytes,
// in both byte orders, from an arbitrary seed.
func VxC09Checksum() {
	n := 8 * vx.Choose("words", 1, 4)
	b := vx.Bytes("b", n)
	s0, s1 := vx.U32("s0"), vx.U32("s1")
	g0, g1 := WALChecksum(binary.BigEndian, s0, s1, b)
	r0, r1 := vxCk(true, s0, s1, b)
	vx.Assert("checksum-be", vx.And(g0 == r0, g1 == r1))
	g0, g1 = WALChecksum(binary.LittleEndian, s0, s1, b)
	r0, r1 = vxCk(false, s0, s1, b)
	vx.Assert("checksum-le", vx.And(g0 == r0, g1 == r1))
	// chaining: ck(s, a‖b) = ck(ck(s,a), b)
	if n >= 16 {
		m0, m1 := WALChecksum(binary.LittleEndian, s0, s1, b[:8])
		c0, c1 := WALChecksum(binary.LittleEndian, m0, m1, b[8:])
		vx.Assert("checksum-chains", vx.And(c0 == g0, c1 == g1))
	}
}
