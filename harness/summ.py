import sys,json
t=sys.stdin.read()
i=t.index('{'); j=t.rindex('}')
r=json.loads(t[i:j+1])
seen={}
for v in (r.get('Violations') or []):
    seen.setdefault(v['label'],[]).append(v)
for l,vs in seen.items():
    print(l,len(vs))
    for v in vs[:3]: print('   ',{k:x for k,x in v['inputs'].items() if not k.startswith('tag') and not k.startswith('rand')})
print({k:v for k,v in r['Reached'].items()}); print('unsupported',r.get('Unsupported'),'inconcl',r.get('Inconclusive'),'panics',r.get('Panics'))
print(t[j+1:].strip())
