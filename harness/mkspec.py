#!/usr/bin/env python3
"""Generates /verif/harness/spec.json (the table the check driver reads).
Edit here, then run:  python3 harness/mkspec.py"""
import json, os

T = {"_tactic": 1}


def run(group, func, quick=None, thorough=None, tier="", note=""):
    r = {"group": group, "func": func}
    if quick is not None:
        r["quick"] = quick
    if thorough is not None:
        r["thorough"] = thorough
    if tier:
        r["tier"] = tier
    if note:
        r["note"] = note
    return r


groups = {
    "root": {"pkg": ".", "hdir": "harness/root", "tags": ""},
    "s3": {"pkg": "s3", "hdir": "harness/s3", "tags": ""},
    "internal": {"pkg": "internal", "hdir": "harness/internal", "tags": ""},
    "file": {"pkg": "file", "hdir": "harness/file", "tags": ""},
    "vfs": {"pkg": ".", "hdir": "harness/vfs", "tags": "vfs"},
    "cmd": {"pkg": "cmd/litestream", "hdir": "harness/cmd", "tags": ""},
}

props = {}

props["C08"] = {
    "level": "model_checking", "validate": 8,
    "runs": [
        run("root", "VxC08Latest", {"N": 3, "M": 5}, {"N": 4, "M": 6}),
        run("root", "VxC08Target", {"N": 3, "M": 5}, {"N": 4, "M": 6}),
        run("root", "VxC08Time", {"N": 3, "M": 5}, {"N": 4, "M": 6}),
    ],
    "assumptions": [
        "snapshot-level files have MinTXID = 1 (how every writer in the code names them)",
        "a backend lists one level's files through the sorted slice iterator (sorted by (min,max)); the real sort runs on the symbolic set",
        "TXIDs in 1..M, so +1 cannot wrap (TXID = 2^64-1 outside the claim)",
        "file timestamps are whole seconds in an 8 s window around the requested time",
    ],
    "stubs": ["ReplicaClient mock over the symbolic file set", "log/slog no-op"],
    "outside": ["more than N files", "levels other than 0,1,2,9 (same code path)", "backend-specific listing behaviour"],
}

c09q = {"PS": 8, "K": 2, "_tactic": 1}
c09t = {"PS": 8, "K": 3, "_tactic": 1}
props["C09"] = {
    "level": "model_checking", "validate": 6,
    "runs": [run("root", f, c09q, c09t) for f in ["VxC09PageMap", "VxC09ReadFrame", "VxC09Budget", "VxC09Resume"]] + [
        run("root", "VxC09Checksum", T, T),
        run("root", "VxC09Resume", {"PS": 8, "K": 2, "_tactic": 1, "FAR": 134217729}, {"PS": 8, "K": 3, "_tactic": 1, "FAR": 134217729}, note="the frames sit 4 GiB into the file: offset arithmetic beyond 32 bits"),
        run("root", "VxC09PageMap", None, {"PS": 64, "K": 2, "_tactic": 1}, tier="thorough", note="longer checksum loops (8 words per page)"),
        run("root", "VxC09ReadFrame", None, {"PS": 512, "K": 1, "_tactic": 1}, tier="thorough", note="smallest real page size"),
    ],
    "assumptions": [
        "A-PS: the page-size field of the WAL header is valid (litestream does not validate it; SQLite does); it is concrete per run (8, 64 or 512 bytes)",
        "A-PG0: no frame carries page number 0 (SQLite rejects it and never writes one)",
        "end offset is compared only when the last commit frame's own page number is within the committed size (true of every WAL SQLite writes)",
        "reference model of SQLite WAL recovery (DESIGN.md D.2): header magic/version/checksum, salts, cumulative checksum, last valid commit frame",
    ],
    "stubs": ["io.ReaderAt over the symbolic image with short reads at its end", "log/slog no-op", "context.Background"],
    "outside": [
        "WAL images longer than K frames", "page sizes not listed in bounds",
        "the resume reference is seeded from the checksum stored in the previous frame; its equivalence with the full scan is argued on paper (an accepted frame's stored checksum equals the computed chain by definition)",
    ],
}

props["C15"] = {
    "level": "model_checking", "validate": 6,
    "unreached_ok": ["plan-ends-at-target", "checkpoint-lock-released-after-read", "snapshot-advertises-local-position", "snapshot-range-is-1-to-pos", "snapshot-size-is-size-at-pos"],
    "runs": [
        run("root", "VxC08Time", {"N": 3, "M": 5}, {"N": 4, "M": 6}),
        run("root", "VxC15Monotone", {"N": 3, "M": 4}, {"N": 4, "M": 4}),
        run("root", "VxC15Exact", {"N": 4}, {"N": 5}, note="requested instants on the second grid and a nanosecond / 999 microseconds past it"),
        run("root", "VxC15Exact", None, {"N": 6, "FRAC": 0}, tier="thorough", note="instants on the second grid only, one more file"),
        run("file", "VxC15FileTimestamp", {}, {}, note="file backend: listed CreatedAt = LTX header timestamp"),
        run("root", "VxC15Restore", {}, {}, note="Replica.Restore with a timestamp, a snapshot uploaded ahead of its level-0 file"),
        run("root", "VxC15SnapshotStamp", {}, {}, note="a snapshot that waited for the executor behind a sync round is stamped no earlier than the TXID it covers (interleaving point: lockExec)"),
    ],
    "assumptions": [
        "replication instants are non-decreasing in TXID (monotone clock)",
        "a compacted file carries the timestamp of its newest input (decided by C06); a snapshot is stamped no earlier than the TXID it captures",
        "timestamps are whole seconds in a 9 s window; snapshot files start at TXID 1",
    ],
    "stubs": ["ReplicaClient mock over the symbolic file set (CreatedAt given directly)", "log/slog no-op"],
    "outside": ["cloud backends' metadata timestamps", "clocks that run backwards", "CreatedAt plumbing of the file backend (ModTime from the LTX header) is covered by C11/C03's file-client harness, not here"],
}

props["C07"] = {
    "level": "model_checking", "validate": 6,
    "runs": [
        run("root", "VxC07SnapshotCascade", {"N": 3}, {"N": 4}),
        run("root", "VxC07L0ByTime", {"N": 3}, {"N": 4}),
        run("root", "VxC07Compactor", {"N": 3}, {"N": 4}),
        run("root", "VxC07Sequence", None, {"N": 3}, tier="thorough", note="both passes in either order on the same replica"),
    ],
    "assumptions": [
        "R-REP (DESIGN.md D.3): snapshots are (1..s); every level >= 1 is a contiguous run that starts no later than one past the oldest snapshot or lies entirely below it; level 0 is a contiguous single-TXID run ending at the newest TXID and starting no later than one past level 1's end",
        "file ages are whole seconds 0..20 around the 10 s thresholds, each file's age independent of every other's",
        "the clock does not advance during one pass (a native pass takes microseconds; every compared instant is half a second away from a threshold)",
        "local shadow files do not exist (os.Remove reports ENOENT, which the code ignores)",
    ],
    "stubs": ["ReplicaClient mock holding a mutable file list (sorted iterator, DeleteLTXFiles removes by name)", "prometheus no-op", "log/slog no-op", "os.Remove on an empty tree", "time.Now = one symbolic instant"],
    "outside": ["more than 2 snapshots / 2 level-1 files / 1 level-2 file / N level-0 files", "time passing between two passes (VxC07Sequence runs them at the same instant)", "retention racing a concurrent compaction (C12)", "storage faults during deletion (C05)"],
}

props["C06"] = {
    "level": "model_checking", "validate": 6,
    "unreached_ok": ["plan-ends-at-target"],
    "runs": [
        run("root", "VxC06Compact", {"K": 2, "C": 3, "DST": 1}, {"K": 3, "C": 3, "DST": 1}),
        run("root", "VxC06Compact", {"K": 2, "C": 2, "DST": 2}, {"K": 2, "C": 3, "DST": 2}, note="level 1 -> level 2, multi-TXID inputs"),
        run("root", "VxC08Latest", {"N": 3, "M": 5}, {"N": 4, "M": 6}, note="whichever mix of levels a replica holds, the plan for the latest state is a valid chain and is found when one exists (shared with C08)"),
        run("root", "VxC06CacheRace", {}, {}, note="the newest-file cache when a compaction finishes while another monitor's listing is in flight (possible only if the cache is not locked during the listing)"),
        run("root", "VxC06Backlog", {"N": 300}, {"N": 600}, note="a backlog of N single-transaction source files drained by successive passes: each written file is the ordered application of exactly the range in its name"),
        run("root", "VxC06LevelEnd", {"K": 3}, {"K": 4}, note="the newest file of a level as the DB caches it, while the listing that fills the cache may break off part-way: an end is taken only from a complete listing"),
        run("root", "VxC06DBCompact", {"N": 3}, {"N": 4}, note="DB.Compact(1) with the DB's own compactor wiring and a local directory that is a suffix of / one ahead of the replica, followed by level-0 retention"),
        run("root", "VxC02Snapshot", {}, {}, note="level-9 snapshots (DB.Snapshot's page source): size and every page equal the state at the advertised position, also after a shrink (shared with C02)"),
    ],
    "assumptions": [
        "R-LVL (DESIGN.md D.3): the destination level is a contiguous run ending at a source-file boundary; the source level continues contiguously from there",
        "a chain of inputs that starts at TXID 1 is growth-complete (each file holds every page between the previous and its own commit size): the writer's guarantee, decided by C01.3/C17; other chains are arbitrary",
        "codec model: lz4 block compression is the identity, crc64 is constant (corruption detection is trusted, see C10); every other line of superfly/ltx's encoder, decoder and compactor is the real code",
        "page images are 512 bytes of which the first 8 are symbolic",
    ],
    "stubs": ["ReplicaClient mock storing encoded files (sorted iterator with the seek filter of the file backend)", "io.Pipe as an unbounded buffer with the producer goroutine run to completion first", "lz4 identity, crc64 constant", "log/slog no-op"],
    "outside": ["more than K new source files, 2 pages per input, databases above C pages", "storage faults (C05)", "Store.CompactDB's scheduling shortcuts"],
}

# ---- MANIFEST text per property -------------------------------------------------
TECH = "bounded symbolic execution of go/ssa + SMT (z3 bit-vectors), native replay of models"
claims = {
    "C08": ("The real CalcRestorePlan, restoreLevelCursor.refresh/ensureCurrent, restoreCandidateBetter and the ltx slice iterator (including its sort) are executed symbolically from go/ssa over every set of N files with symbolic (min,max,createdAt) and every level assignment from {0,1,2,9}, for latest / target-TXID / timestamp requests. z3 discharges, on every path, validity (chain from 1, contiguous, members, eligible, ends at target), completeness against a quantifier-free reachability reference, and gap reporting. Bounded: N<=3 files, TXIDs<=5 (quick); N<=4, TXIDs<=6 (thorough).",
            "Assumes snapshot files start at TXID 1 and backends list a level in (min,max) order.", "DESIGN.md 5 (C08), Appendix D.1"),
    "C09": ("The real WALReader (NewWALReader, NewWALReaderWithOffset, readHeader, readFrame, ReadFrame, Offset, pageMap, PageMap, WALChecksum) is executed symbolically over WAL images in which every byte except the page-size field is symbolic, at every frame-boundary and torn length, both checksum byte orders, every resume offset and byte budget; each result is compared with a reference model of SQLite's WAL recovery for a symbolic witness page. Bounded: K<=2 frames of 8-byte pages (quick), K<=3 plus 64- and 512-byte pages (thorough).",
            "Assumes a valid page-size field and no page-0 frames (A-PS, A-PG0); the reference model itself is an assumption (DESIGN.md D.2).", "DESIGN.md 5 (C09), Appendix D.2"),
    "C15": ("Timestamp mode of the real planner over symbolic file sets: no plan file at or after T; two requests T1<=T2 on one file set (later T still restorable and never an earlier state); with level 0 complete, a compacted file and a snapshot present, the result is exactly the last TXID replicated before T and a T not after the first backup fails. Bounded: N<=3/4 files (2-run), N<=4/6 TXIDs (exact). A snapshot that waited for the executor behind a sync round (interleaving point lockExec) covers that round's TXID and is stamped no earlier than it.",
            "Assumes monotone replication instants and that compacted files carry their newest input's timestamp (decided by C06).", "DESIGN.md 5 (C15)"),
    "C07": ("One retention pass of each kind (Store.EnforceSnapshotRetention with its cascade, DB.EnforceL0RetentionByTime, the Compactor's three entry points, and both DB passes in sequence) is executed symbolically from every replica layout up to TXID N that satisfies the representation invariant R-REP, with every file's age symbolic around the thresholds and RetentionEnabled on and off. After the pass the real CalcRestorePlan must still reach the latest TXID, a snapshot must remain, level 0 must be a contiguous suffix, and no remote delete may be issued when retention is disabled. The DB's cached newest level-0 file may be a local file that has not been uploaded yet.",
            "The invariant R-REP is an assumption about reachable replica states (argued in DESIGN.md D.3); time does not pass inside one pass.", "DESIGN.md 5 (C07), Appendix D.3"),
    "C06": ("One Compactor.Compact step from every level layout within the bound that satisfies R-LVL, through the real ltx.Compactor, ltx.Encoder and ltx.Decoder (only lz4 and crc64 modelled): the output range continues the level, only the new source files are opened and in TXID order, nothing is written when nothing is new, the cache equals the written file, the level stays contiguous; for a symbolic witness page the output holds it iff some input holds it within the final commit size, with the last input's image, equal to applying the inputs in order; commit and timestamp are the newest input's. VxC06DBCompact runs DB.Compact(1) with the DB's own compactor wiring and a local level-0 directory that is a suffix of, or one file ahead of, the replica, followed by the level-0 retention pass; VxC02Snapshot (shared) decides the level-9 snapshot's size and page images, including after a shrink.",
            "Codec model: lz4 identity, crc64 constant. Chains starting at TXID 1 are assumed growth-complete.", "DESIGN.md 5 (C06), Appendix D.3"),
    "C19": ("The real sortSnapshotsV3ByCreatedAt, findBestSnapshotV3, filterWALSegmentsV3, applyWALSegmentsV3, appendWALSegmentV3, RestoreV3 (over the file-system model) and shouldUseV3Restore/TimeBoundsV3/findBestLTXSnapshotForTimestamp are executed symbolically over legacy layouts with every segmentation of IDX WAL indexes into 1-2 segments of 1-2 bytes, any one segment removed, symbolic snapshot/segment/LTX ages and requested time. Asserted: the snapshot used is the newest eligible; the filter keeps exactly the eligible segments; a listing that is not one contiguous run from (snapshot index,0) is an error with no output and no temp file; a contiguous run reassembles each WAL byte-exactly; the format with the more recent eligible backup is chosen. VxC19Generations restores through RestoreV3 from two or three generations listed by name with symbolic snapshot and segment ages and an optional requested time: newest eligible snapshot across generations, its WAL, or an error.",
            "SQLite's application of the reassembled WAL is cut out (checkpointV3 stand-in, also in the native twin). Contiguity is what a listing can show.", "DESIGN.md 5 (C19), 7 (H7)"),
    "C16": ("The real applyNewLTXFiles and fillFollowGap are executed symbolically over every set of N files at levels 0-2 with symbolic ranges and every current TXID: each poll applies a valid chain from the current TXID, returns its end, never regresses, and N+1 polls reach the furthest TXID any chain reaches. The real applyLTXFile (real ltx decoder) is checked on a database file: pages at their offsets, size cut to the commit, only header bytes 18-19/24-27 rewritten, file flushed. The real follow loop with WriteTXIDFile/ReadTXIDFile runs over the file-system model with the process killed before every mutating operation: the sidecar always parses, is never ahead of the applied TXID, never regresses, and a restart resumes from it with a connecting file and converges. The restart goes through Restore's crash-recovery entry (sidecar read, validation against the replica, loop).",
            "The follower's applied TXID in the kill harness is a ghost recorded at the applyLTXFile cut; kill points are file-system operations of the follower only. H13 (a follower ahead of the newest snapshot could not resume) was found here and repaired.", "DESIGN.md 5 (C16)"),
    "C05": ("The real Replica.syncOnce/sync/uploadLTXFile/calcPos/MaxLTXFileInfo/SetPos, DB.Pos/MaxLTX (real LTX decoder) and Compactor.Compact are executed under every assignment of {ok, fail-before, fail-mid-upload, fail-after-effect} to each client call for R faulty rounds followed by a fault-free round: the remote level 0 is 1..max after every call, a nil non-limited result means the local position is stored, the cached position is never ahead of the replica and is forgotten on error, the fault-free round catches up, stored bytes equal the local files; a failed compaction leaves no partial file and no cache entry for a missing file, and a retry writes the right range. The real Replica.monitor (back-off, retry, tickers firing at once) runs under storage calls that fail with plain errors or with errors wrapping context errors while its own context is alive, then work: it keeps running until cancelled and the replica has caught up. Compaction sources may break mid-stream with re-opens failing.",
            "Faults are those of the ReplicaClient interface; the cached position is assumed not ahead of the database (see C04).", "DESIGN.md 5 (C05)"),
    "C20": ("Rely/guarantee step for the real s3.Leaser (AcquireLease, RenewLease, ReleaseLease, readLease, writeLease, isPreconditionFailed, isNotFoundError) and Lease.IsExpired: from every store state consistent with 'an unexpired lease is the stored record' and with the store havocked under that same condition before each of the client's requests while time advances, each operation preserves the witness client's lease while it is unexpired, issues only conditional writes, and on success leaves its own lease as the stored record with the right owner, expiry and generation; a takeover happens only after expiry and increases the generation by one; with a foreign ETag renew and release return ErrLeaseNotHeld and leave the store unchanged. Any number of other clients is covered by the havoc; mutual exclusion of two unexpired holders follows and is asserted.",
            "S3 semantics, a single clock and distinct owners are assumptions.", "DESIGN.md 5 (C20), Appendix D.5"),
    "C17": ("The real writeLTXFromWAL is executed for all 8 page sizes with the previous and new commit sizes each ranging over lock-3..lock+3 and every subset of the four pages next to the lock page present in the WAL: no error, pages ascending and once, the lock page never encoded, a page encoded iff it is in the WAL or in the growth range. The real writeLTXFromDB runs its loop over a sparse database ending at lock-2..lock+2 (page sizes 65536 and 32768 quick; down to 4096 thorough): no error and every page except the lock page is encoded in order. In both, the real ltx.Encoder validates each page. Pages next to the lock page carry marks in the sparse database file; the encoded images must be their own.",
            "Page images are zeros; SQLite never writes the lock page.", "DESIGN.md 5 (C17)"),
    "C10": ("The real ResumableReader.Read/retry/close and LimitedReadCloser.Read run against a stream and opener that choose, at every call, how many bytes to return and whether to succeed, end early or fail: the bytes handed to the caller are always the file's prefix, io.EOF appears only at the end of a file of known size, every reopen asks for exactly the delivered offset, at most three reconnects happen silently and an exhausted budget is permanent. The real Replica.Restore runs over replicas with a missing, truncated, undersized or unopenable file and an output side where every file-system call may fail: an existing output is refused untouched, damage is an error with no output, the output appears only by renaming a flushed and closed temp file, on error it is absent or the complete correct database, the temp file never survives, success means the correct database, and a failed integrity check removes the output. The damaged file is any file of the plan (snapshot or newest).",
            "CRC-64 detection of flipped bytes is trusted, not decided.", "DESIGN.md 5 (C10)"),
    "C13": ("The real checkpointIfNeeded, exceedsTruncateThreshold, effectiveTruncatePageN, calcWALSize and isSQLiteBusyError are executed for every configuration in the stated ranges and every pair of WAL sizes before/after a sync round: when no checkpoint is requested the WAL is below the regular threshold (or holds one frame) and was below the emergency threshold; a requested checkpoint leaves one frame; TRUNCATE is requested only at the emergency threshold and first only after PASSIVE failed; a lagging emergency request arrives in the next round; busy PASSIVE checkpoints are not errors and at most two requests are made per round; from the steady state an idle sync requests nothing. VxC13Rounds runs the real syncLocked over a burst round whose checkpoint may be refused and an idle round: a due checkpoint that was skipped is retried by a sync that copies nothing.",
            "The checkpoint itself is the E-CKPT contract. Known finding H5b (emergency threshold of one page) is reported as such.", "DESIGN.md 5 (C13), 7 (H5)"),
    "C14": ("The real DB.init, ensureWALExists, bumpLitestreamSeq, acquireReadLock, releaseReadLock, rollback, checkpointWithExecutor (all four modes), execCheckpoint and Close run over symsql with every SQL call allowed to fail and the WAL either restarted or not: every statement sent is in the whitelist (journal_mode=wal, the two CREATE TABLE IF NOT EXISTS _litestream_*, the _litestream_seq upsert, the read-lock SELECT, page_size, the _litestream_lock insert, wal_checkpoint in the four modes); no transaction is ever committed; every transaction that executed the lock insert is rolled back before the function returns; the only transaction left open is the read lock; the database and WAL files are never written through the file API; the checkpoint mutex is released; Close releases the read lock and both handles on every path. EnsureExists never touches an existing source database, its -wal or -shm, and runs no integrity check on it.",
            "SQLite's own handling of these statements is outside the claim.", "DESIGN.md 5 (C14)"),
    "C11": ("The publish tails of the real DB.sync, file.ReplicaClient.WriteLTXFile, WriteTXIDFile, checkDatabaseBehindReplica and Replica.Restore, and the delete path Compactor.Compact + EnforceL0Retention through the real file backend, run over a file-system model with ghost dirty bits and a fault decision at every call: a file is never renamed to a final name while it has unflushed writes or an open writer; success is returned only after the directory of the published name was flushed; the temp file never survives (unless its own removal was made to fail); a visible final file is complete and byte-identical to what was written; level-0 files are unlinked only when no publish is still waiting for its directory flush. A sync after a run-time reset of the local state (the directory flushed is the one that exists now) and a follow-mode restore (database flushed before the rename, sidecar after) are covered; a violation that depends only on the durability ghost state is confirmed by concrete re-execution.",
            "POSIX durability model; fault-dependent counterexamples are confirmed by concrete re-execution, not natively.", "DESIGN.md 5 (C11), 7 (H4)"),
    "C03": ("The real DB.sync, file.ReplicaClient.WriteLTXFile, WriteTXIDFile and the follow loop are killed immediately before each of their file-system mutating operations: in the tree left behind every name that parses as an LTX file and the TXID sidecar is a complete file, files acknowledged earlier are still present, the sidecar holds the old or the new value; after a restart (new DB object, real Open with removeTmpFiles, real Pos / file-backend listing) stale temp files are gone and the position is the highest complete level-0 file; the follower resumes from its sidecar. The baseline fetch of checkDatabaseBehindReplica is killed at every operation and restarted; after a kill the file backend's upload is retried by a new client and must go through.",
            "Kill = stop before a file-system operation of the litestream process; WAL-cursor resumption after the restart is C04.", "DESIGN.md 5 (C03)"),
    "C02": ("The real DB.SnapshotReader (snapshotPosition, snapshotWALEndOffset, snapshotReader, pageMap with its byte budget, writeLTXFromDB) runs on a database file and a WAL generated from an abstract history with symbolic page numbers and images: the snapshot published as (1..pos) holds every page once, has the size at pos, and every page image is the one at position pos - nothing committed later in the same WAL generation, nothing from a generation the application started after the last sync, nothing from an open transaction - or the call fails. MaxLTX returns the highest parsing name whatever else is in the directory; pageMap cuts only at commit frames (C09's budget harness); each level-0 file is numbered pos+1 and holds committed pages only (C01's sync harness). The last replicated transaction may have shrunk the database (the snapshot's size and page set follow the state at pos, not the file size).",
            "E-WAL is an assumption about SQLite. H8 (stale end offset after an application WAL restart) was found here and fixed.", "DESIGN.md 5 (C02), 7 (H8)"),
    "C04": ("The real verifyWithExecutor with lastPageMatch, detectFullCheckpoint, readWALHeader, readWALFileAt and the WAL reader decides continuity on WAL images generated from every abstract history within the bound (replicated frames, unseen frames, up to two restarts, truncation), with symbolic salts, page numbers and images, for a fresh process, the same process, and a DB object carried through the real Close and Open: whenever the answer is 'incremental', ground truth must say no committed frame is missing and the resume point must be the replicated offset or the start of the single new generation. After a local state reset the next acknowledged replica sync must have stored the new files, above everything already on the replica. Every answer of verify is followed by the real DB.sync: the file it publishes, laid over the replicated state (a snapshot must hold every page), must be the source database, and an idle second round must not disturb it (thorough). VxC04ResetContinuity runs the real ResetLocalState in a running process whose replica lags and checks the next verify+sync on whatever session state the reset leaves; VxC04InitBehind runs DB.init with the local state lost and a replica whose calls fail transiently: success means the local position is not below the replica's. Unseen frames may form one two-frame transaction.",
            "E-WAL is an assumption about SQLite (tested against real SQLite while writing DESIGN.md). Seven defects were found here and repaired (H1, H2, H3 twice, H9, H11, H12).", "DESIGN.md 5 (C04), D.4, 7"),
    "C01": ("Decided as a composition: VxC01Sync executes the real DB.sync (WAL reader, pageMap, writeLTXFromWAL / writeLTXFromDB, real LTX encoder) on a WAL whose frames after the cursor are symbolic (page numbers 1-4, images, commit marks, open tail) and checks the published file: numbered pos+1, holds a page iff it changed in a committed transaction of the range or lies in the growth range, with the latest committed image, header commit = last commit, synced offset = end of the last commit, synced-to-end flag exact. The other obligations are the harnesses of C04 (continuity), C09 (frame selection), C05 (acknowledgement), C14 (checkpoint step's SQL), C08/C06/C10 (restore). VxC01Ack runs the three acknowledging entry points (SyncAndWait, Store.SyncDB with wait, Close) with the real Sync chunk loop, syncLocked, syncReplicaWithRetry and Replica.Sync over a contract model of the WAL copy: a nil result means the whole committed WAL was copied and every local level-0 file is stored, whatever the backlog and MaxSyncWALBytes. VxC01Sync takes the byte budget as an input (a snapshot ignores it).",
            "Besides the separately decided obligations, one end-to-end harness carries a symbolic WAL history through verify, sync, upload and restore (3-page database, single round); checkpoints inside the history are the E-WAL generator's restarts, not executions of checkpointWithExecutor.", "DESIGN.md 5 (C01)"),
    "C18": ("The real VFS read path under the vfs build tag - CalcRestorePlan, rebuildIndex/buildIndexMap, FetchPageIndex, FetchLTXHeader, FetchPage, ltx.DecodePageIndex/DecodePageData, pollReplicaClient/pollLevel, Lock/Unlock with the pending index, the LRU page cache, ReadAt, FileSize, SetTargetTime/ResetTime - is executed symbolically over replicas produced by the real ltx encoder from generated primary histories (growth, update, partial shrink, VACUUM) and schedules of uploads, level-1 compactions, level-0 retention, reader locks and polls: at open, after every poll (successful or failed) and in a time-travel view, FileSize and every page equal the restore at VFSFile.Pos(), the position never moves backwards, a time-travel view sits at the last transaction before the requested time and is not disturbed by polls. SetTargetTime may land while a poll that finds a new file is in flight (callback inside the listing call).",
            "Two defects found here were repaired (H6 index replaced/untrimmed on shrink, H10 older level-1 file laid over newer level-0 pages). SQLite reading through the VFS, hydration and the write path are outside the claim.", "DESIGN.md 5 (C18), 7 (H6, H10)"),
}
# additions of the third session (second and third seeded rounds), appended to the claim texts
claims_more = {
    "C01": " VxC14Checkpoint (shared) logs the checkpoint protocol's steps with whether the write lock was held: a PASSIVE checkpoint runs under the lock after a sealing copy, an unsealed one is followed by a boundary snapshot under the lock, and after a blocking checkpoint that ran but whose follow-up failed the next round re-snapshots (H16, found here and repaired). VxC01Ack also runs with the monitor's upload pass holding the replica lock when the acknowledging call arrives.",
    "C02": " VxC04Fresh (param VS) runs the whole real verifyAndSyncWithExecutor after a restart and judges the published file on content; VxC14Checkpoint (shared) checks the order of the checkpoint protocol's steps.",
    "C03": " VxC03FileWriteStream feeds the file backend piece by piece while its context ends at any point of the stream: a final name only ever holds the whole stream. VxC05Compact (shared): a compaction whose source breaks mid-stream or whose upload fails leaves nothing partial under a final name.",
    "C05": " Listings may break off part-way (an error reported only by the iterator's Err/Close): positions and level ends are taken from complete listings only; a compaction over a listing that broke off may cover a prefix of the new sources and the retry continues from wherever the level ended. A snapshot may be ahead of level 0 on the replica.",
    "C06": " VxC06LevelEnd: the level end the DB caches is taken only from a complete listing. VxC06Backlog: 300 (thorough 600) single-transaction sources drained by successive passes, each written file being the ordered application of exactly the range in its name. VxC06CacheRace: the newest-file cache when a compaction finishes while another monitor's listing is in flight.",
    "C07": " The level-0 pass also runs over a local directory mirroring the replica's level 0: the newest local file survives, with remote retention enabled or disabled. File ages are counted back from one base instant and may coincide.",
    "C10": " VxC19Restore (shared, param BRK): a legacy-format restore with any one WAL segment missing or one segment download breaking off mid-stream is an error with no output or reassembles exactly the original bytes. VxC10Hole: a hole in the compacted chain without level-0 files.",
    "C11": " VxC11FollowFlush runs the real follow loop with the real apply path over every placement of the next N TXIDs at levels 0-2 under a publish guard: the sidecar is only ever published beside a flushed database. VxC19Restore (param DUR): the legacy-format restore renames the database into place only with its content flushed, whether or not SQLite's checkpoint happened to flush it. VxC03FileWriteStream (shared).",
    "C13": " VxC13Drain runs the real DB.Sync chunk loop draining a backlog of several byte-budget chunks while the application keeps committing (chunk, tail and growth per pass 1-2 frames; synced offset and thresholds symbolic): when it returns the thresholds were evaluated on the size the drain ended at. VxC13Contention: a due PASSIVE checkpoint meeting an application write transaction no longer than BusyTimeout is carried out, with database/sql's connection pool modelled (a connection is configured by the DSN it was opened with, a PRAGMA only configures the connection it ran on). VxC13IdleFile: an idle sync with a stale tail in the WAL file requests nothing.",
    "C14": " The checkpoint call runs inside a request context that ends afterwards (a transaction begun with that context is rolled back by database/sql: H15, found here and repaired). VxC14ResetLocal: a reset of the local state with the meta path at its default, at the database's own directory or at an ancestor leaves the database, -wal, -shm and neighbouring files alone. VxC14EnsureExists also covers a database the application creates while litestream is still asking an empty replica; VxC14RestoreIfNeeded (cmd group) the -restore-if-db-not-exists step. SQL outside the whitelist counts only if it can change what another connection reads.",
    "C15": " VxC15Exact: the requested instant may lie a nanosecond or most of a millisecond past a file's time. VxC15Restore: the whole Replica.Restore with a timestamp on a replica whose newest snapshot was uploaded ahead of its level-0 file. VxC15SnapshotStamp: also without a round in between and with the DB's level-0 cache filled from a lagging replica, the snapshot is never stamped earlier than the level-0 file of its newest transaction.",
    "C16": " VxC16ApplyFar: on a follower database across the 4 GiB offset (sparse file, 512-byte pages) a page on either side lands at (pgno-1)*pageSize and the first pages keep their bytes. VxC16Follow: the follower may be behind a newer snapshot at restart while every incremental file it needs is still there.",
    "C17": " VxC17SyncAcross runs the real DB.sync taking a snapshot of a database that grows across the lock page within this one sync (the file ends before the lock page, the pages beyond are in the WAL; 65536-byte pages, staging file replaced by a page-number sink through the openLTXFile hook). VxC17PageMap: WAL frames for the pages next to the lock page reach the page map.",
    "C19": " VxC19Restore compares each reassembled WAL byte for byte with its segments and may start with a leftover <output>.tmp-wal of an earlier failed attempt.",
    "C20": " Another instance's lease may run far longer than this client's TTL; the store may answer a DeleteObject carrying If-Match with 501 NotImplemented (whatever the client makes of it, the witness's lease and the conditional-write discipline hold).",
}
for _k, _v in claims_more.items():
    _c = claims[_k]
    claims[_k] = (_c[0] + _v, _c[1], _c[2])

na_reasons = {
    "C12": "quantifies over goroutine interleavings and the Go memory model; a sequential SSA symbolic interpreter cannot soundly decide races or deadlocks and no concurrency-aware engine for Go exists in this image (DESIGN.md 6)",
}

props["C19"] = {
    "level": "model_checking", "validate": 6,
    "unreached_ok": ["restored-database-flushed-before-it-is-published", "restored-database-durable-on-success"],
    "runs": [
        run("root", "VxC19Apply", {"IDX": 2}, {"IDX": 3}),
        run("root", "VxC19Select", {"SNAPS": 3}, {"SNAPS": 3}),
        run("root", "VxC19Restore", {"IDX": 2}, {"IDX": 2}),
        run("root", "VxC19Arbitrate", {}, {}),
        run("root", "VxC19Generations", {"GENS": 2}, {"GENS": 3}, note="RestoreV3 over several generations listed by name: newest eligible snapshot across generations, its WAL, or an error"),
    ],
    "assumptions": [
        "a backend lists WAL segments sorted by (index, offset) and snapshots by index (interface contract of ReplicaClientV3)",
        "contiguity is judged on what a listing can show: the first segment must be (snapshot index, 0) and each next one must continue the same index at the running offset or start the next index at offset 0; a removed last segment of an index cannot be seen by any reader of this format and is outside the claim",
        "environment cut: checkpointV3 (SQLite applying <db>-wal) is replaced by a recorder of the reassembled WAL bytes",
        "segment sizes 1-2 bytes, 1-2 segments per index; instants are whole seconds +- 0.5 s",
    ],
    "stubs": ["ReplicaClientV3 mock serving segments from memory", "checkpointV3 recorder (source rewrite, same stand-in natively)", "file-system model (symfs)", "log/slog no-op"],
    "outside": ["more than IDX WAL indexes / 2 segments per index", "decompression and SQLite's application of the WAL", "more than three generations"],
}

props["C16"] = {
    "level": "model_checking", "validate": 6,
    "runs": [
        run("root", "VxC16Poll", {"N": 3, "M": 4}, {"N": 4, "M": 5}),
        run("root", "VxC16Apply", {}, {}),
        run("root", "VxC16Follow", {}, {}),
        run("root", "VxC16ApplyFar", {}, {}, note="a follower database across the 4 GiB offset (sparse file, 512-byte pages): a page on either side lands at (pgno-1)*pageSize"),
    ],
    "assumptions": [
        "level-0 files are single-TXID; a backend lists a level sorted by (min,max) and honours the seek TXID like the file backend (MinTXID >= seek)",
        "environment cut in VxC16Poll/VxC16Follow: applyLTXFile is replaced by a recorder of the applied file (its real body is checked by VxC16Apply); the follow loop's ticker is always ready and the context is cancelled by the replica mock after a fixed number of polls",
        "process kill = stop immediately before a file-system mutating operation (create, write, rename, unlink, truncate); nothing else of the process survives",
        "codec model as in C06 (lz4 identity, crc64 constant); fcntl byte-range locks always granted; crypto/rand yields arbitrary bytes",
    ],
    "stubs": ["ReplicaClient mock (sorted iterator with seek)", "applyLTXFile recorder (source rewrite, same stand-in natively)", "file-system model (symfs) with kill points", "time.Ticker always ready", "log/slog no-op"],
    "outside": ["page-level equality with an ordinary restore on a real database", "the exclusive byte-range lock against concurrent SQLite readers", "more than N files per poll harness"],
}

props["C05"] = {
    "level": "model_checking", "validate": 6,
    "runs": [
        run("root", "VxC05Sync", {"N": 2, "R": 2}, {"N": 3, "R": 3}),
        run("root", "VxC05Limited", {"N": 3}, {"N": 4}),
        run("root", "VxC05Compact", {"K": 2}, {"K": 3}),
        run("root", "VxC04InitBehind", {}, {}, note="start-up baseline from a replica whose listing may break off part-way (shared with C04)"),
        run("root", "VxC05Monitor", {"N": 2}, {"N": 3}, note="the background upload loop under faults that wrap context errors: keeps running, catches up"),
    ],
    "assumptions": [
        "each ReplicaClient call independently draws one of: ok, error before any effect, error after consuming part of the upload, error after the effect took place; listings and downloads: ok or error",
        "the replica initially holds a gapless level-0 prefix of what is stored locally; the cached replica position is unknown or equal to the true remote maximum (a cached position ahead of the database is the run-time reset scenario of C04/H3, not generated here)",
        "local level-0 files are valid LTX files (DB.Pos verifies the newest with the real decoder; codec model as in C06)",
    ],
    "stubs": ["ReplicaClient mock with per-call fault decisions and stored bytes", "file-system model for the local shadow files", "prometheus / slog no-op", "io.Pipe buffer model"],
    "outside": ["more than N local files / R faulty rounds", "faults of the local file system (C11/C03)", "retry pacing (DB.syncReplicaWithRetry back-off timers)"],
}

props["C20"] = {
    "level": "model_checking", "validate": 4,
    "runs": [
        run("s3", "VxC20Acquire", {}, {}),
        run("s3", "VxC20Takeover", {}, {}),
        run("s3", "VxC20Renew", {}, {}),
        run("s3", "VxC20Release", {}, {}),
        run("s3", "VxC20Stale", {}, {}),
    ],
    "assumptions": [
        "S3 conditional-write semantics over one object (DESIGN.md D.5): GET returns (body, ETag); PUT If-None-Match:* succeeds iff absent; PUT/DELETE If-Match succeed iff the stored ETag matches; ETags are injective names of the stored bytes",
        "rely condition: between any two requests of the client under test the object may be replaced by anything (absent, the witness's record, the client's own old record, a third owner's record) as long as every client's unexpired lease is still the stored record (the other clients run the same protocol)",
        "one monotone clock shared by all instances; time advances by 0..2 s before every request; expiry instants are half a second off whole seconds",
        "JSON model for litestream.Lease: an injective fixed-layout encoding with dec(enc(x)) = x (the native twin uses encoding/json)",
        "owners are distinct per client",
    ],
    "stubs": ["S3API mock (conditional requests over one object)", "encoding/json model for Lease", "clock model with explicit steps", "log/slog no-op"],
    "outside": ["S3's actual conditional-write behaviour", "clock skew between instances", "lost responses / transport faults (the property quantifies over interleavings of requests)", "the generation restarting at 1 after an explicit release (by design; the repository's own test expects it)"],
}

props["C17"] = {
    "level": "model_checking", "validate": 3,
    "runs": [
        run("root", "VxC17Incremental", {}, {}),
        run("root", "VxC17PageMap", {}, {}, note="WAL frames for the pages next to the lock page reach the page map"),
        run("root", "VxC17Snapshot", {"PSI": 7}, {"PSI": 7}, note="65536-byte pages: 16385 loop iterations"),
        run("root", "VxC17SyncAcross", {"PSI": 7, "_maxsteps": 40000000}, {"PSI": 7, "_maxsteps": 40000000}, note="the real DB.sync snapshotting a database that grows across the lock page within one sync (file ends before the lock page, the pages beyond are in the WAL)"),
        run("root", "VxC17Snapshot", {"PSI": 6, "_maxsteps": 40000000}, {"PSI": 6, "_maxsteps": 40000000}, note="32768-byte pages"),
        run("root", "VxC17Snapshot", None, {"PSI": 5, "_maxsteps": 80000000}, tier="thorough", note="16384-byte pages"),
        run("root", "VxC17Snapshot", None, {"PSI": 4, "_maxsteps": 160000000}, tier="thorough", note="8192-byte pages"),
        run("root", "VxC17Snapshot", None, {"PSI": 3, "_maxsteps": 320000000}, tier="thorough", note="4096-byte pages"),
    ],
    "assumptions": [
        "the WAL never holds a frame for the lock page itself, and every page it holds lies within the committed size (SQLite's behaviour)",
        "the database file is sparse zeros; page images are irrelevant to which pages are encoded",
        "codec model as in C06; the encoder's own validation (lock page refused, snapshot pages sequential with the lock page skipped, non-snapshot pages ascending) is the real code",
    ],
    "stubs": ["file-system model with sparse files", "page sink recording the encoder's page headers", "log/slog no-op"],
    "outside": ["snapshot loop for page sizes 512-2048 (2M-524k iterations each; same code, only longer)", "compaction and restore of such databases (ltx.Compactor / DecodeDatabaseTo skip the lock page by the same comparison): a restore writes 1 GiB of page data through the decoder and the file-system model, beyond what the engine can hold - two seeded changes in Replica.Restore (seeded/C17-D, C17-F) are therefore not detected", "VFS reads across the lock page"],
}

props["C10"] = {
    "level": "model_checking", "validate": 6,
    "unreached_ok": ["restored-database-flushed-before-it-is-published", "restored-database-durable-on-success"],
    "runs": [
        run("internal", "VxC10Reader", {"S": 3, "READS": 4, "OPENS": 4}, {"S": 4, "READS": 5, "OPENS": 5}),
        run("internal", "VxC10Limited", {}, {}),
        run("root", "VxC10Restore", {}, {}),
        run("root", "VxC10Integrity", {}, {}),
        run("root", "VxC10Hole", {}, {}, note="a replica without level-0 files whose middle compacted file is gone"),
        run("root", "VxC19Restore", {"IDX": 2, "BRK": 1}, {"IDX": 2, "BRK": 1}, note="legacy-format restore with any one WAL segment missing or one segment download breaking off mid-stream: an error with no output, or exactly the original bytes (shared with C19)"),
    ],
    "assumptions": [
        "a storage stream is honest about bytes (it returns the file's bytes at its position) but may return any count up to the buffer, end early or fail at every Read; every reopen may succeed, report not-exist or fail",
        "corruption detection proper (flipped bytes) is CRC-64 inside superfly/ltx and is trusted; the check covers structural damage (missing file, truncation at 0, 1/4, 1/2, 3/4 of the file, size below the header size, opens that always fail) and that every decoder error is propagated",
        "environment cut: checkIntegrity (SQLite PRAGMA integrity_check) is replaced by a stand-in with an arbitrary verdict",
        "file-system operations of the output side may each fail (fault decisions); counterexamples that need an injected fault are confirmed by concrete re-execution of the real SSA instead of a native run",
    ],
    "stubs": ["LTXFileOpener / stream mock with per-call outcomes", "ReplicaClient mock serving damaged files", "file-system model with fault injection", "checkIntegrity stand-in (source rewrite)", "time.After ready immediately", "codec model as in C06"],
    "outside": ["bit flips inside an LTX file (CRC-64, trusted)", "more than one kind of damage at once", "RestoreV3's skeleton (C19)"],
}

props["C13"] = {
    "level": "model_checking", "validate": 6,
    "unreached_ok": ["snapshot-advertises-local-position", "snapshot-decodes", "snapshot-range-is-1-to-pos", "snapshot-size-is-size-at-pos", "snapshot-holds-every-page-once", "page-image-is-the-one-at-pos", "checkpoint-lock-released-after-read"],
    "runs": [
        run("root", "VxC13Bound", {}, {}),
        run("root", "VxC13Lag", {}, {}),
        run("root", "VxC13Idle", {}, {}),
        run("root", "VxC13Busy", {}, {}),
        run("root", "VxC02Snapshot", {}, {}, note="a failed snapshot attempt leaves the checkpoint lock free (shared with C02)"),
        run("root", "VxC13IdleFile", {"ONEPS": 1}, {}, note="idle sync with a stale tail in the WAL file: the size the decision is made on is the synced size"),
        run("root", "VxC13Drain", {"ONEPS": 1}, {"ONEPS": 1}, note="the real DB.Sync chunk loop draining a backlog of several byte-budget chunks while the application keeps committing: when it returns the thresholds were evaluated on the size the drain ended at"),
        run("root", "VxC13Contention", {}, {}, note="a due PASSIVE checkpoint meeting an application write transaction shorter than BusyTimeout, with database/sql's connection pool modelled (connections are configured by the DSN only): the barrier waits, the checkpoint is carried out"),
        run("root", "VxC13Rounds", {"ONEPS": 1}, {}, note="the real syncLocked over a burst round (checkpoint possibly refused) and an idle round: a skipped checkpoint is retried"),
    ],
    "assumptions": [
        "E-CKPT: with no application transaction pinned, a checkpoint issued by litestream backfills the whole WAL and the following _litestream_seq write restarts it, leaving exactly one frame, already copied, with syncedSinceCheckpoint = false (cross-checked against real SQLite while writing DESIGN.md, H5 probe)",
        "configuration ranges: all 8 page sizes, MinCheckpointPageN 1..131071, TruncatePageN 0..131071 (0 = default 121359), CheckpointInterval in {0, 1, 2 min}, WAL sizes 0..262143 frames, database mtime 0..200 s old",
        "A-CFG: when the emergency threshold is the lower one the code evaluates it on the size before the round; the request then arrives in the next round (VxC13Lag), which is reported as an observation, not a violation",
    ],
    "stubs": ["checkpointWithExecutor replaced by E-CKPT / busy / not-restarted outcomes (source rewrite, same stand-in natively)", "file-system model (database mtime)", "clock model", "prometheus / slog no-op", "database/sql over symsql with the connection pool modelled (LIFO free list, a transaction pins its connection, a new connection is configured by the DSN only); the harness's SQL environment keeps a busy timeout per connection", "WAL copy scripted round by round (vxGhostScript) in VxC13Drain/VxC13Rounds"],
    "outside": ["that SQLite honours E-CKPT", "the real checkpointWithExecutor (covered by C14 and C01's checkpoint step)", "VxC13Drain: chunk, tail and growth per pass are 1-2 frames, three budget-cut passes then one that reaches the end", "how long SQLite actually waits on a lock (busy handler semantics are the contract: a statement waits up to its connection's timeout)"],
}

props["C14"] = {
    "level": "model_checking", "validate": 6,
    "runs": [
        run("root", "VxC14Init", {}, {}),
        run("root", "VxC14Checkpoint", {}, {}),
        run("root", "VxC14Close", {}, {}),
        run("cmd", "VxC14RestoreIfNeeded", {}, {}, note="the -restore-if-db-not-exists start-up step leaves an existing database file alone, also an empty one"),
        run("root", "VxC14EnsureExists", {}, {}, note="start-up restore never touches an existing source database, its -wal or -shm - also one the application creates while litestream is still asking an empty replica (interleaving point: the listing call)"),
        run("root", "VxC14ResetLocal", {}, {}, note="a reset of the local state with the meta path at its default, at the database's own directory or at an ancestor: database, -wal, -shm and neighbouring files stay"),
    ],
    "assumptions": [
        "symsql: every database/sql call db.go makes (BeginTx, ExecContext, QueryRowContext/Scan, Tx.ExecContext/Rollback/Commit, Close) is handed to an environment handler that may fail it (SQLITE_BUSY) and that records statements and transaction lifetimes; natively the same handler sits behind a database/sql driver",
        "what SQLite does with the whitelisted statements (they do not touch application tables; a rolled-back insert into _litestream_lock leaves it empty) is not decided here",
        "environment cuts: sql.Open of the sqlite driver, setPersistWAL (driver file control), and the WAL copying between the SQL steps (verifyAndSyncWithExecutor, sync) with arbitrary outcomes",
    ],
    "stubs": ["symsql handler", "file-system model", "WAL-copy stand-ins (source rewrite)", "prometheus / slog no-op"],
    "outside": ["SQLite's integrity and journal-mode behaviour", "checkpointV3 / checkIntegrity (they run on the restored copy, never on the source)", "snapshot reads (C02)"],
}

props["C11"] = {
    "level": "model_checking", "validate": 4,
    "runs": [
        run("root", "VxC11Sync", {}, {}),
        run("root", "VxC11Sidecar", {}, {}),
        run("root", "VxC11Baseline", {}, {}),
        run("file", "VxC11FileWrite", {}, {}),
        run("file", "VxC03FileWriteStream", {}, {}, note="success means the whole stream was published, also when the context ends mid-stream (shared with C03)"),
        run("file", "VxC11Retention", {}, {}),
        run("root", "VxC10Restore", {}, {}, note="restore output: renamed only after flush and close (shared with C10)"),
        run("root", "VxC11SyncResetSync", {}, {}, note="sync, run-time reset of the local state, sync: the directory that exists now is the one flushed"),
        run("root", "VxC11RestoreFollow", {}, {}, note="follow-mode restore: database flushed before it is renamed, sidecar published after"),
        run("root", "VxC11FollowFlush", {"N": 3}, {"N": 4}, note="the follow loop with the real apply path over every placement of the next N TXIDs at levels 0-2: the sidecar is only ever published beside a flushed database"),
        run("root", "VxC19Restore", {"IDX": 2, "DUR": 1}, {"IDX": 2, "DUR": 1}, note="legacy-format restore: the database is renamed into place only with its content flushed, whether or not SQLite's checkpoint happened to flush it (shared with C19)"),
    ],
    "unreached_ok": ["existing-output-refused-and-untouched", "damaged-replica-is-an-error", "damaged-replica-leaves-no-output", "success-means-correct-database", "temp-file-gone", "integrity-check-ran", "output-on-error-is-complete", "refused-stream-leaves-no-temp-file"],
    "assumptions": [
        "POSIX model: a file's content is durable after fsync on a descriptor of that file; a directory entry (rename, create, unlink) is durable after fsync on the directory; rename is atomic",
        "ghost state: a write or truncate makes a file dirty until its next fsync; rename/create/unlink make the directory dirty until the directory's next fsync; the rules checked are: never rename a dirty or still-open file into a final name, never return success while the directory of a published name is dirty, never unlink a superseded file while a publish is not yet durable",
        "every file-system call may fail (fault decision per call, writes may be partial); counterexamples that need an injected fault are confirmed by concrete re-execution of the real SSA",
    ],
    "stubs": ["file-system model (symfs) with dirty bits", "ReplicaClient mock where the replica side is not the subject", "codec model as in C06"],
    "outside": ["that fsync reaches stable storage", "Hydrator.saveMeta (VFS build tag, see C18)", "retention racing a concurrent compaction (C12)", "cloud backends (their durability is the provider's)"],
}

props["C03"] = {
    "level": "model_checking", "validate": 4,
    "runs": [
        run("root", "VxC03Sync", {}, {}),
        run("root", "VxC03Sidecar", {}, {}),
        run("root", "VxC03Baseline", {}, {}, note="baseline fetch (checkDatabaseBehindReplica) killed at every file-system operation, then restarted"),
        run("file", "VxC03FileWrite", {}, {}),
        run("file", "VxC03FileWriteStream", {}, {}, note="the file backend fed piece by piece while its context ends at any point of the stream: a final name only ever holds the whole stream"),
        run("root", "VxC05Compact", {"K": 2}, {"K": 3}, note="a compaction whose source breaks mid-stream or whose upload fails: nothing partial is visible under a final name (shared with C05)"),
        run("root", "VxC16Follow", {}, {}, note="follower killed at every file-system operation (shared with C16)"),
    ],
    "unreached_ok": ["sidecar-always-parses", "sidecar-complete-file", "sidecar-never-ahead-of-database", "sidecar-never-regresses", "follow-returns-nil-on-cancel", "caught-up", "no-temp-left", "resume-connects-to-sidecar", "resume-converges", "refused-stream-leaves-no-temp-file"],
    "assumptions": [
        "a process kill stops the process immediately before a file-system mutating operation (create, write, truncate, rename, unlink, mkdir, chtimes); data already written stays (no power loss: that is C11); nothing else of the process survives",
        "ghost 'complete': a file is complete when every handle that wrote it has been closed after its last write",
        "resumption correctness of the WAL cursor after the restart is C04's fresh-process scenario, not decided here",
    ],
    "stubs": ["file-system model (symfs) with kill points", "ReplicaClient mock", "codec model as in C06"],
    "outside": ["kill points inside SQLite or cgo", "kills during compaction and retention beyond the file backend's WriteLTXFile and the baseline fetch", "power loss (C11)"],
}

props["C02"] = {
    "level": "model_checking", "validate": 6,
    "unreached_ok": ["idle-round-keeps-replica-at-source", "restore-from-the-replica-succeeds", "restored-database-equals-source", "upload-acknowledged-means-stored",
                     # VxC04Fresh runs here in its whole-round variant (VS): the verify-level assertions of the other variant stay unreached
                     "incremental-only-when-nothing-was-missed", "incremental-resumes-where-replication-stopped", "snapshot-holds-every-page"],
    "runs": [
        run("root", "VxC02Snapshot", {}, {}),
        run("root", "VxC02MaxLTX", {}, {}),
        run("root", "VxC09Budget", {"PS": 8, "K": 2, "_tactic": 1}, {"PS": 8, "K": 3, "_tactic": 1}, note="pageMap cuts only at commit frames (shared with C09)"),
        run("root", "VxC01Sync", {}, {}, note="each level-0 file holds committed pages only and is numbered pos+1 (shared with C01)"),
        run("root", "VxC09Resume", {"PS": 8, "K": 2, "_tactic": 1}, {"PS": 8, "K": 3, "_tactic": 1}, note="a copy that resumes mid-WAL only continues the generation and position it was given (shared with C09)"),
        run("root", "VxC04Fresh", {"VS": 1}, {"VS": 1}, note="after a restart, whatever the real verifyAndSyncWithExecutor decides, the file it publishes is one consistent state: the source (shared with C04)"),
        run("root", "VxC14Checkpoint", {}, {}, note="checkpoint protocol: a PASSIVE checkpoint runs under the write lock after a sealing copy; an unsealed checkpoint is followed by a boundary snapshot under the write lock (shared with C14/C01)"),
    ],
    "assumptions": [
        "E-WAL (DESIGN.md C04): a WAL generation has fixed salts; the application restarts the WAL only when it is fully backfilled, so after a restart the database file holds the previous generation's final state; two generations never share both salts",
        "histories: 1-2 transactions of the old generation covered by level-0 files up to the position; 0-2 later transactions either appended to the same generation (plus an optional open transaction) or in a new generation after a restart; the process is the same one that synced last, or a fresh one",
        "the database has 3 pages of 512 bytes; each transaction is one frame",
    ],
    "stubs": ["file-system model", "WAL images with checksums computed by construction", "io.Pipe buffer model", "codec model as in C06"],
    "outside": ["the atomicity of capturing the position and taking the checkpoint lock under real concurrency (C12)", "SQLite's guarantee that a commit frame closes a transaction", "multi-frame transactions in the snapshot harness (covered by the pageMap harnesses of C09)"],
}

props["C04"] = {
    "level": "model_checking", "validate": 6,
    "unreached_ok": ["idle-round-keeps-replica-at-source", "restore-from-the-replica-succeeds", "restored-database-equals-source", "upload-acknowledged-means-stored",
                     # VxC04Fresh runs here in its whole-round variant (VS): the verify-level assertions of the other variant stay unreached
                     "incremental-only-when-nothing-was-missed", "incremental-resumes-where-replication-stopped", "snapshot-holds-every-page"],
    "runs": [
        run("root", "VxC04Fresh", {"ROUND2": 0}, {}),
        run("root", "VxC04Fresh", {"VS": 1}, {"VS": 1}, note="the same histories through the real verifyAndSyncWithExecutor in one call, judged on content"),
        run("root", "VxC04SameProcess", {"ROUND2": 0}, {}),
        run("root", "VxC04Reopened", {"ROUND": 0}, {}),
        run("root", "VxC04Reset", {}, {}),
        run("root", "VxC04ResetContinuity", {"ROUND2": 0}, {}),
        run("root", "VxC04InitBehind", {}, {}, note="start-up with the local state lost and a replica whose calls fail transiently"),
    ],
    "assumptions": [
        "E-WAL (DESIGN.md C04/D.4): a WAL generation has fixed salts (salt1 = previous + 1, salt2 random; two generations never share both); frames are only appended within a generation; a restart overwrites from offset 32 and happens only when the previous generation is fully backfilled; the file is shortened only by TRUNCATE checkpoints, journal_size_limit or deletion; stale frames of older generations stay beyond the new generation's end",
        "observed clause (same process): the WAL can be restarted or truncated under a running litestream only while it sits on read mark 0 (a fully checkpointed WAL), at most once per read transaction, and there the next writer restarts the WAL instead of appending; so 'frames appended after a sync that ended exactly at the end of the file' and 'restart' exclude each other within a session",
        "unobserved clause (fresh process, DB object closed and reopened): any history with up to two restarts, with or without truncation",
        "ground truth of the assertion: a committed frame is lost iff (frames were appended after the replicated position and the WAL was restarted) or (the WAL was restarted twice); 'incremental' is acceptable only if nothing is lost and the resume point is the replicated offset (no restart) or offset 32 with the new salts (one restart, nothing appended)",
        "histories: 1-2 replicated frames, 0-2 unseen frames, 0-2 restarts with 1-2 frames each, single-frame transactions on a 3-page database of 512-byte pages",
    ],
    "stubs": ["file-system model", "WAL images with checksums computed by construction; the last level-0 file is a real LTX file with the WAL bookkeeping header", "symsql and WAL-copy stand-ins for the Close/Open carry-over scenario", "ReplicaClient mock"],
    "outside": ["anything SQLite does that E-WAL does not describe", "two generations sharing both salts", "more than two restarts / longer WALs", "the database file being replaced by another database (checkDatabaseBehindReplica's TXID comparison is covered by VxC11Baseline/VxC04Reset only for the behind case)"],
}

props["C01"] = {
    "level": "model_checking", "validate": 6,
    "unreached_ok": ["idle-round-keeps-replica-at-source"],
    "runs": [
        run("root", "VxC01Sync", {}, {}),
        run("root", "VxC01Ack", {}, {}, note="acknowledging entry points: SyncAndWait, Store.SyncDB(wait), Close"),
        run("root", "VxC04SameProcess", {"ROUND2": 0, "E2E": 1}, {"E2E": 1}, note="one symbolic history through verify, sync, upload, restore plan, ltx compaction and decode: the restored database equals the source (continuity harness of C04 in the observed scenario, carried to the end)"),
        run("root", "VxC04Fresh", None, {"ROUND2": 0, "E2E": 1}, tier="thorough", note="the same end-to-end chain after a restart"),
        run("root", "VxC09PageMap", {"PS": 8, "K": 2, "_tactic": 1}, {"PS": 8, "K": 3, "_tactic": 1}, note="frame selection = SQLite's committed pages (shared with C09)"),
        run("root", "VxC05Sync", {"N": 2, "R": 1}, {"N": 3, "R": 2}, note="acknowledgement implies stored (shared with C05)"),
        run("root", "VxC14Checkpoint", {}, {}, note="checkpoint step: barrier transaction rolled back, read lock re-acquired (shared with C14)"),
    ],
    "assumptions": [
        "C01 is decided as a composition of obligations, each by its own harness (continuity C04, frame selection C09, page set and header arithmetic VxC01Sync, acknowledgement VxC01Ack/C05, restore C08/C06/C10), plus one end-to-end harness in which a single symbolic history (E-WAL generator of C04) runs through the real verify, DB.sync, Replica.syncOnce, CalcRestorePlan, ltx compaction and decode, and the restored pages must equal the source",
        "SQLite WAL contract E-WAL; growth-completeness of SQLite's own WAL frames (a transaction that grows the database writes every new page)",
    ],
    "stubs": ["as in the harnesses named"],
    "outside": ["SQLite's integrity check of the restored file", "page images of a real database", "the checkpoint step's interaction with application commits between litestream's sealing sync and the checkpoint (the real checkpointWithExecutor is exercised over symsql in C14 with the WAL copying cut out; an end-to-end symbolic history through checkpoints is not built)"],
}

props["C18"] = {
    "level": "model_checking", "validate": 6,
    "runs": [
        run("vfs", "VxC18Open", {"N": 3, "P": 3}, {"N": 4, "P": 3}),
        run("vfs", "VxC18Poll", {"N0": 1, "K": 2, "R": 1, "P": 3}, {"N0": 2, "K": 1, "R": 2, "P": 2}),
        run("vfs", "VxC18Poll", None, {"N0": 1, "K": 1, "R": 3, "P": 2}, tier="thorough", note="three polls"),
        run("vfs", "VxC18TimeTravel", {"N": 2, "P": 3}, {"N": 3, "P": 3}),
    ],
    "assumptions": [
        "primary histories: every transaction commits a size of 1..P pages, writes every page of the range it grows the database by (what litestream's writer guarantees, C01/C17) and otherwise either one page of the surviving range (update, partial shrink) or all of them (VACUUM)",
        "a compacted file (snapshot, level 1) holds the newest image of every page its inputs touch inside the final size (decided for the real compactor by C06); level-0 retention removes only files already compacted into level 1 (C07)",
        "a reader that held the shared lock during a poll releases it before the next statement; the view is compared after the release",
        "backends list a level sorted by TXID and honour the seek TXID (MinTXID >= seek) and range reads",
        "codec model as in C06 (lz4 identity, crc64 constant); page numbers are case-split because they key Go maps; page images are symbolic 8-byte tags",
    ],
    "stubs": ["ReplicaClient mock storing the encoded files with range reads", "lz4 identity, crc64 constant", "crypto/rand arbitrary bytes", "log/slog no-op", "the poll loop's goroutine and ticker are not run: pollReplicaClient is called at the chosen poll points"],
    "outside": ["SQLite itself reading through the VFS (cgo)", "the hydrated local copy (Hydrator), the write-enabled VFS and its conflict detection", "level-2+ files appearing after open (the poll reads levels 0 and 1 only)", "a poll overlapping a read from another goroutine (C12)", "more than P pages / the stated numbers of transactions and polls", "liveness: a poll that fails leaves the view unchanged, which is all that is asserted for it"],
}

rewrites = [
    {"file": "replica.go", "from": "func checkpointV3(", "to": "func checkpointV3Real("},
    {"file": "replica.go", "from": "func (r *Replica) applyLTXFile(", "to": "func (r *Replica) applyLTXFileReal("},
    {"file": "replica.go", "from": "func checkIntegrity(", "to": "func checkIntegrityReal("},
    {"file": "db.go", "from": "func (db *DB) checkpointWithExecutor(", "to": "func (db *DB) checkpointWithExecutorReal("},
    {"file": "db.go", "from": "sql.Open(\"sqlite\", dsn)", "to": "vxSQLOpenDSN(\"sqlite\", dsn)"},
    {"file": "db.go", "from": "func (db *DB) setPersistWAL(", "to": "func (db *DB) setPersistWALReal("},
    {"file": "db.go", "from": "func (db *DB) verifyAndSyncWithExecutor(", "to": "func (db *DB) verifyAndSyncWithExecutorReal("},
    {"file": "db.go", "from": "func (db *DB) sync(", "to": "func (db *DB) syncReal("},
    {"file": "db.go", "from": "func (db *DB) lockExec(", "to": "func (db *DB) lockExecReal("},
    {"file": "db.go", "from": "func (db *DB) verifyWithExecutor(", "to": "func (db *DB) verifyWithExecutorReal("},
    {"file": "replica.go", "from": "func (r *Replica) lockSync(", "to": "func (r *Replica) lockSyncReal("},
]

def write_manifest():
    all_ids = ["C%02d" % i for i in range(1, 21)]
    checks = []
    for pid in all_ids:
        if pid not in props:
            continue
        text, note, ref = claims[pid]
        checks.append({
            "property_id": pid, "quick_cmd": "./check %s quick" % pid, "thorough_cmd": "./check %s thorough" % pid,
            "evidence_file": "/verif/evidence/%s.json" % pid, "replay_cmd_template": "./check replay %s {path}" % pid,
            "engine": "gosym",
            "level_claimed": {"category": props[pid]["level"], "text": text, "design_ref": ref},
            "level_note": note + " SQLite, the OS, object stores and goroutine scheduling are outside the claim (stubs listed in the evidence). Engine soundness is argued (native validation of sampled passing paths, z3 5.1 and cvc5 on sampled queries), not proven. Nothing is claimed beyond the stated bounds.",
            "technique": TECH,
        })
    na = [{"property_id": p, "reason": na_reasons.get(p, "check not built yet in this session (planned: DESIGN.md 5)")} for p in all_ids if p not in props]
    manifest = {
        "version": 1,
        "setup_cmd": "./setup.sh",
        "hooks": {
            "guard": "verif",
            "enable": "none needed: harnesses and the vx support package are injected by in-memory overlay (go/packages Overlay for the engine, go test -overlay for native replay); /repo is never modified by a check",
            "baseline_off_cmd": "for m in $(cat /w/out/gomods.txt); do MF=$(cd /repo/$m && . /w/out/goenv.sh && gomodflag); (cd /repo/$m && go test $MF -json -vet=off -count=1 -timeout 25m ./...); done",
            "source_commits": [], "add_only": True,
        },
        "engines": [{
            "name": "gosym", "path": "/verif/engine", "serves_properties": [c["property_id"] for c in checks],
            "kind_free_text": "bounded symbolic execution of the real Go code: own go/ssa interpreter with SMT bit-vector terms, stateless DFS path exploration, one z3 -in process per worker deciding branch feasibility and every assertion; counterexamples replayed natively (go test -overlay) before being reported; queries cross-checked with z3 5.1 and cvc5",
        }],
        "checks": checks,
        "not_applicable": na,
        "notes": "All checks share one engine (gosym). Exit 0 = every path explored within the stated bound and every obligation unsat; exit 1 = a solver model that reproduced natively, printed as VIOLATION; exit 2 = inconclusive (harness does not compile against the tree, unsupported construct, solver unknown, encoding mismatch) and never an alarm.",
    }
    json.dump(manifest, open(os.path.join(os.path.dirname(os.path.dirname(os.path.abspath(__file__))), "MANIFEST.gen.json"), "w"), indent=1)


write_manifest()
spec = {"repo": "/repo", "groups": groups, "properties": props, "rewrites": rewrites}
out = os.path.join(os.path.dirname(os.path.abspath(__file__)), "spec.gen.json")
json.dump(spec, open(out, "w"), indent=1)
print("wrote", out, "with", len(props), "properties")
