//go:build vfs

package litestream

// C18 harnesses: the VFS read replica against the reference "restore at
// VFSFile.Pos()". The real CalcRestorePlan, rebuildIndex/buildIndexMap,
// FetchPageIndex, FetchLTXHeader, pollReplicaClient/pollLevel, Lock/Unlock,
// ReadAt, FetchPage, FileSize, SetTargetTime/ResetTime run over a replica whose
// files are produced by the real ltx encoder from a generated primary history:
// page images, commit sizes and the schedule of uploads, compactions, retention
// and polls are the symbolic inputs; page numbers are case-split (they key Go maps).

import (
	"context"
	"errors"
	"io"
	"time"

	lru "github.com/hashicorp/golang-lru/v2"
	"github.com/psanford/sqlite3vfs"
	"github.com/superfly/ltx"

	"github.com/benbjohnson/litestream/internal/vx"
)

const vxVFSMaxPages = 3

// vxDBState is the database after one transaction: what a full restore at that
// TXID produces.
type vxDBState struct {
	size uint32
	img  [vxVFSMaxPages + 1]uint64
}

// vxPrimary is the primary's history: state after each TXID and the level-0
// file each transaction produced.
type vxPrimary struct {
	states []vxDBState // index = TXID; states[0] is the empty database
	l0     []*vxLTX    // index = TXID
	base   time.Time
	// bound on the database size in pages (parameter P, at most vxVFSMaxPages)
	maxPages int
}

// vxVFSClient serves file contents with range reads, as the backends do.
type vxVFSClient struct {
	vxStoreClient
	// onList, when set, runs once inside the next listing call: what another
	// goroutine does while that request is in flight (the poll lists and fetches
	// without holding the file's mutex)
	onList func()
}

func (c *vxVFSClient) LTXFiles(ctx context.Context, level int, seek ltx.TXID, useMetadata bool) (ltx.FileIterator, error) {
	if h := c.onList; h != nil {
		c.onList = nil
		h()
	}
	return c.vxStoreClient.LTXFiles(ctx, level, seek, useMetadata)
}

func (c *vxVFSClient) OpenLTXFile(ctx context.Context, level int, minTXID, maxTXID ltx.TXID, offset, size int64) (io.ReadCloser, error) {
	b, ok := c.data[vxKey(level, minTXID, maxTXID)]
	if !ok {
		return nil, errors.New("vx: no such ltx file")
	}
	if offset > int64(len(b)) {
		offset = int64(len(b))
	}
	b = b[offset:]
	if size > 0 && size < int64(len(b)) {
		b = b[:size]
	}
	return io.NopCloser(&vxByteReader{b: b}), nil
}

type vxByteReader struct {
	b []byte
	i int
}

func (r *vxByteReader) Read(p []byte) (int, error) {
	if r.i >= len(r.b) {
		return 0, io.EOF
	}
	n := copy(p, r.b[r.i:])
	r.i += n
	return n, nil
}

// upload stores f with its listing timestamp.
func (c *vxVFSClient) upload(f *vxLTX, at time.Time) {
	c.put(f)
	c.files[len(c.files)-1].CreatedAt = at
}

func (c *vxVFSClient) remove(level int, min, max ltx.TXID) {
	delete(c.data, vxKey(level, min, max))
	var keep []*ltx.FileInfo
	for _, f := range c.files {
		if !(f.Level == level && f.MinTXID == min && f.MaxTXID == max) {
			keep = append(keep, f)
		}
	}
	c.files = keep
}

// commit appends one transaction to the history. A transaction writes every page
// of the range it grows the database by (what litestream's writer guarantees,
// C01/C17), and either rewrites the whole database (VACUUM) or one page of the
// surviving range (page 1 carries the size and the free list, so a transaction
// that shrinks or leaves the size alone still writes a page).
func (h *vxPrimary) commit() {
	t := len(h.states)
	prev := h.states[t-1]
	var st vxDBState
	st.size = uint32(vx.Choose("commit", 1, h.maxPages))
	f := &vxLTX{level: 0, min: ltx.TXID(t), max: ltx.TXID(t), commit: st.size, ts: h.base.Add(time.Duration(t) * time.Second).UnixMilli()}
	keep := prev.size
	if st.size < keep {
		keep = st.size
	}
	rewrite := uint32(0) // 0: none; vxVFSMaxPages+1: all
	if t == 1 {
		rewrite = vxVFSMaxPages + 1
	} else if st.size <= prev.size {
		rewrite = uint32(vx.Choose("rewrite", 1, int(keep)+1))
	} else {
		rewrite = uint32(vx.Choose("rewrite", 0, int(keep)+1))
	}
	if rewrite == keep+1 {
		rewrite = vxVFSMaxPages + 1
	}
	for p := uint32(1); p <= st.size; p++ {
		switch {
		case p > prev.size, rewrite == vxVFSMaxPages+1, rewrite == p:
			st.img[p] = vx.U64("tag")
			f.pages = append(f.pages, vxPg{p, st.img[p]})
		default:
			st.img[p] = prev.img[p]
		}
	}
	h.states = append(h.states, st)
	h.l0 = append(h.l0, f)
}

// compacted is the file a compaction of level-0 files a..b writes: the newest
// image of every page they touch that lies inside the final size.
func (h *vxPrimary) compacted(level int, a, b int) *vxLTX {
	f := &vxLTX{level: level, min: ltx.TXID(a), max: ltx.TXID(b), commit: h.states[b].size, ts: h.l0[b].ts}
	for p := uint32(1); p <= f.commit; p++ {
		touched := false
		for t := a; t <= b; t++ {
			for _, pg := range h.l0[t].pages {
				if pg.pgno == p {
					touched = true
				}
			}
			if h.states[t].size < p {
				touched = false // cut off; only a later growth brings it back
			}
		}
		if touched || a == 1 {
			f.pages = append(f.pages, vxPg{p, h.states[b].img[p]})
		}
	}
	return f
}

func vxNewPrimary() *vxPrimary {
	h := &vxPrimary{base: time.Unix(1700000000, 0).UTC(), maxPages: vx.Param("P", vxVFSMaxPages)}
	if h.maxPages > vxVFSMaxPages {
		panic("P exceeds vxVFSMaxPages")
	}
	h.states = []vxDBState{{}}
	h.l0 = []*vxLTX{nil}
	return h
}

func (h *vxPrimary) at(t int) time.Time { return h.base.Add(time.Duration(t) * time.Second) }

func vxNewVFSFile(c ReplicaClient) *VFSFile {
	f := NewVFSFile(c, "app.db", vxLogger())
	f.pageSize = vxPageSize
	cache, err := lru.New[uint32, []byte](8)
	if err != nil {
		panic(err)
	}
	f.cache = cache
	return f
}

// vxCheckView compares what the file serves with the restore at its position.
func vxCheckView(f *VFSFile, h *vxPrimary, want int, when string) bool {
	pos := int(f.Pos().TXID)
	if want >= 0 {
		vx.Assert("position-"+when, pos == want)
	}
	if pos < 1 || pos >= len(h.states) {
		vx.Assert("position-names-a-transaction-"+when, false)
		return false
	}
	st := h.states[pos]
	size, err := f.FileSize()
	vx.Assert("file-size-equals-restore-"+when, err == nil && size == int64(st.size)*vxPageSize)
	buf := make([]byte, vxPageSize)
	for p := uint32(1); p <= st.size; p++ {
		n, err := f.ReadAt(buf, int64(p-1)*vxPageSize)
		vx.Assert("page-is-readable-"+when, err == nil && n == vxPageSize)
		if err != nil {
			return false
		}
		vx.Assert("page-equals-restore-"+when, vxTagOf(buf) == st.img[p])
	}
	return true
}

// VxC18Open: the view at open over every plan shape the bound allows: a
// snapshot or level-1 file followed by level-0 files, across growth, partial
// shrink and full rewrite.
func VxC18Open() {
	n := vx.Param("N", 3) // transactions
	h := vxNewPrimary()
	c := &vxVFSClient{}
	for t := 1; t <= n; t++ {
		h.commit()
	}
	// the replica: a snapshot or level-1 file 1..s and the level-0 files after it
	s := vx.Choose("covered", 1, n)
	lvl := SnapshotLevel
	if vx.Fault("baseIsLevel1") {
		lvl = 1
	}
	c.upload(h.compacted(lvl, 1, s), h.at(s))
	for t := s + 1; t <= n; t++ {
		c.upload(h.l0[t], h.at(t))
	}
	ctx := context.Background()
	infos, err := CalcRestorePlan(ctx, c, 0, time.Time{}, vxLogger())
	vx.Assert("plan-exists", err == nil && len(infos) == n-s+1)
	if err != nil {
		return
	}
	f := vxNewVFSFile(c)
	vx.Assert("index-builds", f.rebuildIndex(ctx, infos, nil) == nil)
	vxCheckView(f, h, n, "at-open")
	vx.Observe("size", uint64(h.states[n].size))
}

// vxRound lets the primary, the compactor and retention act, then polls.
func vxRound(f *VFSFile, c *vxVFSClient, h *vxPrimary, maxNew int, l1max *int, l0min *int, when string) {
	ctx := context.Background()
	k := vx.Choose("newTx", 0, maxNew)
	for i := 0; i < k; i++ {
		h.commit()
		t := len(h.states) - 1
		c.upload(h.l0[t], h.at(t))
	}
	latest := len(h.states) - 1
	// level-1 compaction of the level-0 files after the previous level-1 file, up
	// to some transaction that was uploaded when it ran
	if *l1max < latest && vx.Fault("compactL1") {
		b := vx.Choose("l1upto", *l1max+1, latest)
		c.upload(h.compacted(1, *l1max+1, b), h.at(b))
		*l1max = b
	}
	// level-0 retention removes files already compacted into level 1
	if *l0min <= *l1max && vx.Fault("retainL0") {
		for t := *l0min; t <= *l1max; t++ {
			c.remove(0, ltx.TXID(t), ltx.TXID(t))
		}
		*l0min = *l1max + 1
	}
	reader := vx.Fault("readerHoldsLock")
	if reader {
		if err := f.Lock(sqlite3vfs.LockShared); err != nil {
			panic(err)
		}
	}
	before := int(f.Pos().TXID)
	err := f.pollReplicaClient(ctx)
	if reader {
		// the read transaction keeps its snapshot; it ends before the next statement
		if uerr := f.Unlock(sqlite3vfs.LockNone); uerr != nil {
			panic(uerr)
		}
	}
	if err != nil {
		// a failed poll changes nothing
		vx.ObserveBool("pollError-"+when, true)
		vxCheckView(f, h, before, when)
		return
	}
	vxCheckView(f, h, -1, when)
	vx.Assert("poll-never-moves-backwards-"+when, int(f.Pos().TXID) >= before)
}

// VxC18Poll: open, read everything (which fills the page cache), then two
// rounds of primary activity / compaction / retention each followed by a poll,
// with or without a reader holding the shared lock during the poll.
func VxC18Poll() {
	n0 := vx.Param("N0", 2) // transactions before open
	k := vx.Param("K", 2)   // new transactions per round (at most)
	rounds := vx.Param("R", 2)
	h := vxNewPrimary()
	c := &vxVFSClient{}
	for t := 1; t <= n0; t++ {
		h.commit()
	}
	s := vx.Choose("covered", 1, n0)
	lvl := SnapshotLevel
	l1max := 0
	if vx.Fault("baseIsLevel1") {
		lvl = 1
		l1max = s
	}
	c.upload(h.compacted(lvl, 1, s), h.at(s))
	for t := s + 1; t <= n0; t++ {
		c.upload(h.l0[t], h.at(t))
	}
	l0min := s + 1
	if lvl == SnapshotLevel {
		// the level-1 chain is whatever compaction produced so far; the VFS seeds its
		// level-1 cursor from its position, so model the chain as complete up to s
		l1max = s
	}
	ctx := context.Background()
	infos, err := CalcRestorePlan(ctx, c, 0, time.Time{}, vxLogger())
	if err != nil {
		panic(err)
	}
	f := vxNewVFSFile(c)
	if err := f.rebuildIndex(ctx, infos, nil); err != nil {
		panic(err)
	}
	if !vxCheckView(f, h, n0, "at-open") {
		return
	}
	for r := 1; r <= rounds; r++ {
		when := "after-poll"
		if r > 1 {
			when = "after-second-poll"
		}
		vxRound(f, c, h, k, &l1max, &l0min, when)
	}
	vx.Observe("pos", uint64(f.Pos().TXID))
}

// VxC18TimeTravel: a time-travel view equals the restore for that time, stays
// put while polls see newer files, and ResetTime returns to the latest state.
func VxC18TimeTravel() {
	n := vx.Param("N", 3)
	h := vxNewPrimary()
	c := &vxVFSClient{}
	for t := 1; t <= n; t++ {
		h.commit()
	}
	c.upload(h.compacted(SnapshotLevel, 1, 1), h.at(1))
	for t := 2; t <= n; t++ {
		c.upload(h.l0[t], h.at(t))
	}
	ctx := context.Background()
	infos, err := CalcRestorePlan(ctx, c, 0, time.Time{}, vxLogger())
	if err != nil {
		panic(err)
	}
	f := vxNewVFSFile(c)
	if err := f.rebuildIndex(ctx, infos, nil); err != nil {
		panic(err)
	}
	if !vxCheckView(f, h, n, "at-open") {
		return
	}
	// travel to half a second after transaction T
	T := vx.Choose("T", 1, n)
	if vx.Fault("travelWhilePolling") {
		// the application sets the target time while a poll that will find a new file
		// is in flight (between the poll's listing request and its reply)
		h.commit()
		c.upload(h.l0[n+1], h.at(n+1))
		var terr error
		c.onList = func() { terr = f.SetTargetTime(ctx, h.at(T).Add(500*time.Millisecond)) }
		if err := f.pollReplicaClient(ctx); err != nil {
			vx.ObserveBool("pollError", true)
		}
		c.onList = nil
		vx.Assert("time-travel-succeeds", terr == nil)
		if terr != nil {
			return
		}
		if !vxCheckView(f, h, T, "in-the-past-after-racing-poll") {
			return
		}
		vx.Assert("reset-time-succeeds", f.ResetTime(ctx) == nil)
		vxCheckView(f, h, n+1, "after-reset")
		return
	}
	terr := f.SetTargetTime(ctx, h.at(T).Add(500*time.Millisecond))
	vx.Assert("time-travel-succeeds", terr == nil)
	if terr != nil {
		return
	}
	if !vxCheckView(f, h, T, "in-the-past") {
		return
	}
	// the primary moves on; the poll must not disturb the historical view
	h.commit()
	c.upload(h.l0[n+1], h.at(n+1))
	if err := f.pollReplicaClient(ctx); err != nil {
		vx.ObserveBool("pollError", true)
	}
	if !vxCheckView(f, h, T, "in-the-past-after-poll") {
		return
	}
	vx.Assert("reset-time-succeeds", f.ResetTime(ctx) == nil)
	vxCheckView(f, h, n+1, "after-reset")
}
