package internal

// C10 harness (reader side): ResumableReader over a stream that may return any
// number of bytes, end early, or fail at every Read, and an opener that may fail
// at every reopen. The stream itself is honest about the bytes it delivers (it
// returns the file's bytes at its position); everything else is adversarial.

import (
	"context"
	"errors"
	"io"
	"log/slog"
	"os"
	"strings"

	"github.com/benbjohnson/litestream/internal/vx"
	"github.com/superfly/ltx"
)

var errVxStream = errors.New("vx: connection reset")

type vxFile struct {
	data      []byte
	delivered int // bytes the reader under test has handed to its caller so far (ghost)
	opens     int
	maxOpens  int
	badOffset bool // a reopen asked for an offset different from what was delivered
}

type vxStream struct {
	f      *vxFile
	pos    int
	closed bool
}

func (s *vxStream) Read(p []byte) (int, error) {
	rem := len(s.f.data) - s.pos
	max := len(p)
	if rem < max {
		max = rem
	}
	n := 0
	if max > 0 {
		n = vx.Choose("n", 0, max)
	}
	copy(p, s.f.data[s.pos:s.pos+n])
	s.pos += n
	switch vx.Choose("outcome", 0, 2) {
	case 1:
		return n, io.EOF // possibly premature
	case 2:
		return n, errVxStream
	}
	if n == 0 && rem == 0 {
		return 0, io.EOF // an honest stream ends at the end of the file
	}
	return n, nil
}

func (s *vxStream) Close() error { s.closed = true; return nil }

func (f *vxFile) OpenLTXFile(ctx context.Context, level int, minTXID, maxTXID ltx.TXID, offset, size int64) (io.ReadCloser, error) {
	f.opens++
	if int(offset) != f.delivered {
		f.badOffset = true
	}
	if f.opens > f.maxOpens {
		return nil, os.ErrNotExist
	}
	switch vx.Choose("open", 0, 2) {
	case 1:
		return nil, os.ErrNotExist
	case 2:
		return nil, errVxStream
	}
	if int(offset) > len(f.data) {
		offset = int64(len(f.data))
	}
	return &vxStream{f: f, pos: int(offset)}, nil
}

// VxC10Reader: every byte delivered at logical position k is the file's byte k;
// io.EOF only at the end of the file when the size is known; reopens ask for the
// delivered offset; after the retry budget is spent every call fails.
func VxC10Reader() {
	size := vx.Param("S", 3)
	reads := vx.Param("READS", 4)
	f := &vxFile{data: vx.Bytes("file", size), maxOpens: vx.Param("OPENS", 4)}
	known := int64(0)
	if vx.Fault("sizeKnown") {
		known = int64(size)
	}
	first := &vxStream{f: f}
	r := NewResumableReader(context.Background(), f, 0, 1, 1, known, first, slog.Default())
	buf := make([]byte, 2)
	var out []byte
	exhausted := false // the reader reported that its retry budget is spent
	errReturns := 0
	for i := 0; i < reads; i++ {
		n, err := r.Read(buf)
		vx.Assert("n-within-buffer", n >= 0 && n <= len(buf))
		if exhausted {
			vx.Assert("exhausted-budget-is-permanent", err != nil && n == 0)
		}
		out = append(out, buf[:n]...)
		f.delivered = len(out)
		if err == io.EOF {
			if known > 0 {
				vx.Assert("eof-only-at-end-of-file", len(out) == size)
			}
			break
		}
		if err != nil {
			errReturns++
			if strings.HasPrefix(err.Error(), "max retries exceeded") {
				exhausted = true
			}
		}
	}
	// at most three reconnects are made silently; beyond that every further attempt
	// is preceded by an error handed to the caller
	vx.Assert("retry-budget-respected", f.opens <= 3+errReturns)
	vx.Assert("never-more-than-the-file", len(out) <= size)
	same := true
	for i := 0; i < len(out) && i < size; i++ {
		same = vx.And(same, out[i] == f.data[i])
	}
	vx.Assert("delivered-bytes-are-the-file-prefix", same)
	vx.Assert("reopen-at-delivered-offset", !f.badOffset)
	vx.Observe("delivered", uint64(len(out)))
}

// VxC10Limited: LimitedReadCloser never delivers more than N bytes and passes
// through what the underlying reader returns.
func VxC10Limited() {
	size := 4
	f := &vxFile{data: vx.Bytes("file", size), maxOpens: 0}
	limit := int64(vx.Choose("limit", 0, 5))
	r := LimitReadCloser(&vxStream{f: f}, limit)
	buf := make([]byte, 3)
	var out []byte
	for i := 0; i < 4; i++ {
		n, err := r.Read(buf)
		out = append(out, buf[:n]...)
		if err != nil {
			break
		}
	}
	vx.Assert("limit-respected", int64(len(out)) <= limit && len(out) <= size)
	same := true
	for i := range out {
		same = vx.And(same, out[i] == f.data[i])
	}
	vx.Assert("limited-bytes-are-the-file-prefix", same)
}
